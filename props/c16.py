"""C16 - the grid object describes exactly the grid the parameters specify."""
from fractions import Fraction

import numpy as np

from lib import common, harness

LEVEL = "exploration"
RULE = ("case = batch of (Nx,Ny,Nz, mins, spacings, fd_order) parameter sets "
        "drawn from decimal spacings (0.1, 0.3, 0.7, 1/3, 1e-3, ...), random "
        "floats and offsets of very different magnitude; for each set the "
        "attributes of FiniteDifference are compared with exact rational "
        "arithmetic (len == N, |x_i - (min + i d)| <= 4 ulp, xmax last point, "
        "all mesh / spherical arrays of shape (Nx,Ny,Nz), round trip of the "
        "coordinate conversion, cutoffmask[2] trim widths, excision leaves "
        "its input untouched); a sub-sample is pushed through the consumers "
        "that mix fd.x / fd.Nx with param-shaped data (AurelCore init radii, "
        "tetrad_base, null_ray_exp_out/in, angmomdown3_n, Psi4_lm, "
        "validate_estimation_function). non-trivial = distinct parameter "
        "sets with at least one axis whose min + N*d is not exactly "
        "representable in binary floating point")
ASSUMPTIONS = ["exact rational arithmetic (fractions.Fraction) as coordinate reference"]
TIMEOUT = {"quick": 900, "thorough": 3000}
MIN_NONTRIVIAL = {"quick": 500, "thorough": 5000}

SPACINGS = [0.1, 0.3, 0.7, 1 / 3, 1e-3, 0.05, 0.2, 0.6, 1.1, 2.5, 0.15, 1e-2,
            0.025, 3.3, 1 / 7, 0.9]
MINS = [0.0, -1.0, -0.5, 0.1, -0.3, 1.7, -2.4, 100.3, -1e3, 1e-3, -1 / 3]


def draw_axis(rng):
    N = int(rng.choice([2, 3, 4, 5, 6, 7, 9, 10, 12, 16, 20, 30, 33, 50, 64,
                        100, int(rng.integers(2, 200))]))
    if rng.random() < 0.7:
        d = float(rng.choice(SPACINGS))
    else:
        d = float(10 ** rng.uniform(-3, 1))
    if rng.random() < 0.7:
        mn = float(rng.choice(MINS))
    else:
        mn = float(rng.normal() * 10 ** rng.uniform(-2, 3))
    if rng.random() < 0.3:
        mn = -d * (N // 2)         # grids centred on the origin
    return N, mn, d


def cases(tier, sd):
    nb = 32 if tier == "quick" else 400
    per = 120 if tier == "quick" else 400
    return [dict(batch=i, seed=1000 * sd + i, n=per, consumers=(4 if tier == "quick" else 10))
            for i in range(nb)]


def representable(mn, N, d):
    return Fraction(mn) + N * Fraction(d) == Fraction(float(mn + N * d)) and \
        float(Fraction(mn) + N * Fraction(d)) == mn + N * d and \
        Fraction(mn + N * d) == Fraction(mn) + N * Fraction(d)


def check_grid(res, par, order):
    A = harness.aurel()
    tag = f"N=({par['Nx']},{par['Ny']},{par['Nz']})"
    res['observations'] += 1
    try:
        with common.Quiet():
            fd = A.FiniteDifference(dict(par), fd_order=order, verbose=False)
    except Exception as e:
        common.add_violation(res, f"constructor raises {type(e).__name__}", {"param": par})
        return None
    N = (par['Nx'], par['Ny'], par['Nz'])
    bad = None
    for ax, c in enumerate('xyz'):
        arr = getattr(fd, c + 'array')
        mn, d, n = par[c + 'min'], par['d' + c], N[ax]
        if len(arr) != n:
            bad = (f"len({c}array) != N", {"len": len(arr), "N": n, "min": mn, "d": d})
            break
        if getattr(fd, 'N' + c) != n:
            bad = (f"fd.N{c} != N", {"fdN": getattr(fd, 'N' + c), "N": n})
            break
        exact = np.array([float(Fraction(mn) + i * Fraction(d)) for i in range(n)])
        ulp = np.spacing(np.maximum(np.abs(exact), max(abs(mn), abs((n - 1) * d))))
        if np.any(np.abs(arr - exact) > 4 * ulp):
            bad = (f"{c}array off min+i*d by > 4 ulp",
                   {"worst_ulp": float((np.abs(arr - exact) / ulp).max()), "min": mn, "d": d, "N": n})
            break
        if getattr(fd, c + 'max') != arr[-1] or getattr(fd, c + 'min') != mn:
            bad = (f"{c}max is not the last point", {})
            break
        ic = getattr(fd, f'i{c}center')
        if not (0 <= ic < n) or abs(arr[ic]) != np.abs(arr).min():
            bad = (f"i{c}center not closest to zero", {})
            break
    if bad is None:
        for nm in ('x', 'y', 'z', 'r', 'theta', 'phi'):
            if np.shape(getattr(fd, nm)) != N:
                bad = (f"fd.{nm} shape != (Nx,Ny,Nz)", {"shape": np.shape(getattr(fd, nm)), "N": N})
                break
    if bad is None:
        if (np.shape(fd.cartesian_coords) != (3,) + N
                or np.shape(fd.spherical_coords) != (3,) + N):
            bad = ("coords arrays shape", {})
        elif not (np.array_equal(fd.x[:, 0, 0], fd.xarray)
                  and np.array_equal(fd.y[0, :, 0], fd.yarray)
                  and np.array_equal(fd.z[0, 0, :], fd.zarray)):
            bad = ("mesh axes order (ij indexing)", {})
    if bad is None:
        # conversion round trip (also on axis / origin points)
        r, th, ph = fd.cartesian_to_spherical(fd.x, fd.y, fd.z)
        xx, yy, zz = fd.spherical_to_cartesian(r, th, ph)
        sc = max(np.abs(r).max(), 1e-300)
        err = max(np.abs(xx - fd.x).max(), np.abs(yy - fd.y).max(), np.abs(zz - fd.z).max())
        if not err <= 1e-6 * sc or not np.all(np.isfinite([r, th, ph])):
            bad = ("cartesian<->spherical round trip", {"err": float(err), "scale": float(sc)})
        elif np.any(th < 0) or np.any(th > np.pi) or np.any(np.abs(ph) > np.pi):
            bad = ("spherical angle ranges", {})
    if bad is None:
        # spherical -> Cartesian -> spherical, azimuth given in (-pi, pi] or in [0, 2 pi)
        g = np.random.default_rng(N[0] * 131 + N[1] * 17 + N[2])
        rr = g.uniform(0.1, 5.0, 64)
        tt = g.uniform(0.05, np.pi - 0.05, 64)
        pp = g.uniform(-np.pi, 2 * np.pi, 64)
        xx, yy, zz = fd.spherical_to_cartesian(rr, tt, pp)
        want = (rr * np.sin(tt) * np.cos(pp), rr * np.sin(tt) * np.sin(pp), rr * np.cos(tt))
        err = max(np.abs(np.asarray(a) - b).max() for a, b in zip((xx, yy, zz), want))
        if not err <= 1e-12 * 5.0:
            bad = ("spherical_to_cartesian differs from r sin(th) cos(ph), ...", {"err": float(err)})
        else:
            r2, t2, p2 = fd.cartesian_to_spherical(xx, yy, zz)
            dphi = np.abs((np.asarray(p2) - pp + np.pi) % (2 * np.pi) - np.pi)
            if not (np.abs(r2 - rr).max() <= 1e-9 and np.abs(t2 - tt).max() <= 1e-9
                    and dphi.max() <= 1e-9):
                bad = ("spherical -> Cartesian -> spherical round trip", {})
    if bad is None:
        # the stored spherical arrays belong to THIS grid (not to an earlier
        # one with the same N and spacing): compare with exact coordinates
        ex = [np.array([float(Fraction(par[c + 'min']) + i * Fraction(par['d' + c]))
                        for i in range(N[a])]) for a, c in enumerate('xyz')]
        X, Y, Z = np.meshgrid(*ex, indexing='ij')
        R = np.sqrt(X * X + Y * Y + Z * Z)
        sc = max(R.max(), 1e-300)
        if np.abs(fd.r - R).max() > 1e-12 * sc:
            bad = ("fd.r is not the radius of this grid", {"err": float(np.abs(fd.r - R).max())})
        else:
            xx, yy, zz = fd.spherical_to_cartesian(fd.r, fd.theta, fd.phi)
            err = max(np.abs(xx - X).max(), np.abs(yy - Y).max(), np.abs(zz - Z).max())
            if not err <= 1e-6 * sc:
                bad = ("fd.theta / fd.phi do not describe this grid", {"err": float(err)})
            elif not (np.array_equal(fd.spherical_coords[0], fd.r)):
                bad = ("spherical_coords[0] is not r", {})
        if bad is None:
            # points exactly on an axis: the angles are exact there
            on_z = (fd.x == 0) & (fd.y == 0) & (fd.z != 0)
            if np.any(on_z):
                t = fd.theta[on_z]
                if not np.all((t == 0) | (np.abs(t - np.pi) < 4e-16)):
                    bad = ("theta not exactly 0/pi on the z axis", {"theta": float(np.abs(np.minimum(t, np.pi - t)).max())})
            on_y0 = (fd.y == 0) & (fd.x != 0)
            if bad is None and np.any(on_y0):
                pch = np.abs(fd.phi[on_y0])
                if not np.all((pch == 0) | (np.abs(pch - np.pi) < 4e-16)):
                    bad = ("phi not exactly 0/pi for y = 0", {})
    if bad is None:
        # an order that is not offered falls back to 4: the trimming helpers
        # follow the scheme actually used (fd.fd_order), not the request
        eff = int(getattr(fd, 'fd_order', order))
        if eff not in (2, 4, 6, 8) or (order in (2, 4, 6, 8) and eff != order):
            bad = ("fd.fd_order is not an offered order / not the requested one",
                   {"requested": order, "reported": eff})
    if bad is None:
        m = eff // 2
        for dim in (1, 2, 3):
            f = np.arange(float(np.prod(N[:dim]))).reshape(N[:dim])
            for w, fn in ((m, fd.cutoffmask), (2 * m, fd.cutoffmask2)):
                if min(N[:dim]) <= 2 * w:
                    continue
                want = f[(slice(w, -w),) * dim]
                got = fn(f)
                if got.shape != want.shape or not np.array_equal(got, want):
                    bad = (f"{fn.__name__} trim width", {"dim": dim, "N": N[:dim], "w": w})
        if bad is None and min(N) >= 2:
            f = np.random.default_rng(0).normal(size=N)
            g = f.copy()
            for fn in (fd.excision, fd.excision2):
                out = fn(f)
                if not np.array_equal(f, g):
                    bad = (f"{fn.__name__} modifies its input", {})
                elif out.shape != N:
                    bad = (f"{fn.__name__} output shape", {})
                elif not np.array_equal(out[~np.isnan(out)], f[~np.isnan(out)]):
                    bad = (f"{fn.__name__} changed kept points", {})
    if bad is not None:
        common.add_violation(res, bad[0], dict(bad[1], param=par, order=order))
        return None
    if not all(representable(par[c + 'min'], N[i], par['d' + c]) for i, c in enumerate('xyz')):
        res['nontrivial'].append([tag, par['xmin'], par['dx'], par['ymin'], par['dy'], par['zmin'], par['dz']])
    return fd


def check_consumers(res, par, order):
    A = harness.aurel()
    from aurel import time as atime
    N = (par['Nx'], par['Ny'], par['Nz'])
    try:
        with common.Quiet():
            fd = A.FiniteDifference(dict(par), fd_order=order, verbose=False)
            # sphere centred in the box so that the default extraction radius
            # (0.9 * distance to the nearest face, from fd.xmin/xmax) is inside
            mid = tuple(par[c + 'min'] + 0.5 * (N[i] - 1) * par['d' + c]
                        for i, c in enumerate('xyz'))
            rel = A.AurelCore(fd, verbose=False, center=mid)
            grid_names = ('xarray', 'yarray', 'zarray', 'x', 'y', 'z', 'r', 'theta', 'phi',
                          'cartesian_coords', 'spherical_coords')
            grid0 = {k: np.array(getattr(fd, k), copy=True) for k in grid_names}
            out = {}
            out['null_ray_exp_out'] = np.shape(rel['null_ray_exp_out'])
            out['null_ray_exp_in'] = np.shape(rel['null_ray_exp_in'])
            out['angmomdown3_n'] = np.shape(rel['angmomdown3_n'])[1:]
            e = rel.tetrad_base()
            out['tetrad_base'] = np.shape(e[1])[1:]
            rel.data['Weyl_Psi4r'] = np.ones(N)
            rel.data['Weyl_Psi4i'] = np.zeros(N)
            rel.lmax = 2
            lm = rel['Psi4_lm']
            out['Psi4_lm'] = N if len(lm) == 1 else ()
            seen = []
            atime.validate_estimation_function(
                lambda a: seen.append(a.shape) or a.max(), 'probe', fd, verbose=False)
            out['validate_estimation_function'] = seen[0]
    except Exception as e:
        res['observations'] += 1
        common.add_violation(res, f"consumer raises {type(e).__name__}",
                             {"param": par, "err": repr(e)[:200]})
        return
    # the consumers only read the grid object (it is shared by every later user)
    res['observations'] += 1
    changed = [k for k in grid_names if not np.array_equal(grid0[k], getattr(fd, k), equal_nan=True)]
    if changed:
        common.add_violation(res, "a consumer modified the grid object's arrays",
                             {"param": par, "arrays": changed, "center": mid})
        return
    for k, shp in out.items():
        res['observations'] += 1
        if tuple(shp) != N:
            common.add_violation(res, f"consumer {k} shape", {"param": par, "shape": shp})
        else:
            res['nontrivial'].append(['consumer', k, str(N), par['dx']])
    res['monitor']['consumer_sets'] = res['monitor'].get('consumer_sets', 0) + 1


def run_case(spec):
    res = common.new_result(spec)
    rng = np.random.default_rng([int(spec['seed']), 16])
    todo = spec['consumers']
    for i in range(spec['n']):
        axes = [draw_axis(rng) for _ in range(3)]
        # keep the mesh small: one long axis, two short ones
        long_ax = int(rng.integers(0, 3))
        for a in range(3):
            if a != long_ax:
                axes[a] = (int(rng.integers(2, 9)),) + axes[a][1:]
        order = int(rng.choice([2, 4, 6, 8, 2, 4, 6, 8, 3, 7, 10]))
        par = {}
        for a, c in enumerate('xyz'):
            par['N' + c], par[c + 'min'], par['d' + c] = axes[a]
        if rng.random() < 0.12:
            # integer-valued parameters typed as Python ints (xmin=-3, dx=1)
            for c in 'xyz':
                par[c + 'min'] = int(round(par[c + 'min']))
                par['d' + c] = int(max(1, round(abs(par['d' + c]) * 4)))
        if rng.random() < 0.12:
            # an axis listed downwards (negative spacing): still min + i*spacing
            c = 'xyz'[int(rng.integers(3))]
            par[c + 'min'] = par[c + 'min'] + (par['N' + c] - 1) * par['d' + c]
            par['d' + c] = -par['d' + c]
        if rng.random() < 0.15:
            # the same grid in other units (boxes of 1e-9 or 1e6 across)
            u = float(rng.choice([1e-9, 1e-12, 1e6]))
            for c in 'xyz':
                par[c + 'min'] = par[c + 'min'] * u
                par['d' + c] = par['d' + c] * u
        if rng.random() < 0.4:
            # dictionaries coming from parameters() also carry domain bounds
            for c in 'xyz':
                par[c + 'max'] = par[c + 'min'] + par['N' + c] * par['d' + c]
                par['L' + c] = par['N' + c] * par['d' + c]
        check_grid(res, par, order)
        if rng.random() < 0.3:
            # a second grid with the same N and spacing but another origin,
            # built right after the first one in the same process
            par_b = dict(par)
            for c in 'xyz':
                par_b[c + 'min'] = par[c + 'min'] + float(rng.choice([0.5, -1.25, 3.0])) * par['d' + c] * (1 + int(rng.integers(3)))
                if c + 'max' in par_b:
                    par_b[c + 'max'] = par_b[c + 'min'] + par_b['N' + c] * par_b['d' + c]
            check_grid(res, par_b, order)
        if todo and i % (spec['n'] // todo) == 0:
            # consumers need room for the stencils: at least 3p/2+1 points
            n0 = 3 * (order if order in (2, 4, 6, 8) else 4) // 2 + 1
            par2 = dict(par)
            for c in 'xyz':
                par2['N' + c] = max(n0, min(par2['N' + c], 14)) + int(rng.integers(0, 3))
                if rng.random() < 0.5:
                    par2[c + 'min'] = -par2['d' + c] * (par2['N' + c] // 2) + 0.37 * par2['d' + c]
            check_consumers(res, par2, order)
            # two boxes with the same shape and spacing but different origins,
            # one after the other in this process: each describes its own grid
            # (flat space: the null expansions about the box centre are +-2/r)
            pa = dict(par2)
            for c, n in zip('xyz', (12, 13, 14)):
                pa['N' + c] = n
            pb = dict(pa)
            for c in 'xyz':
                pb[c + 'min'] = pa[c + 'min'] + (0.37 + int(rng.integers(0, 3))) * pa['d' + c]
            ctr = tuple(pa[c + 'min'] + 0.5 * (pa['N' + c] - 1) * pa['d' + c] for c in 'xyz')
            for pq in (pa, pb):
                for c in ('xmax', 'ymax', 'zmax', 'Lx', 'Ly', 'Lz'):
                    pq.pop(c, None)
                check_null_rays(res, pq, 4, ctr)      # same extraction centre in both
            # a centre away from the origin whose components add up to zero
            pc = dict(pa)
            w = 2.0 * abs(pa['dx'])
            for c, off in zip('xyz', (w, -w, 0.0)):
                pc[c + 'min'] = off - 0.5 * (pc['N' + c] - 1) * pc['d' + c]
            check_null_rays(res, pc, 4, (w, -w, 0.0))
    return res


def check_null_rays(res, par, order, mid):
    A = harness.aurel()
    N = (par['Nx'], par['Ny'], par['Nz'])
    try:
        with common.Quiet():
            fd = A.FiniteDifference(dict(par), fd_order=order, verbose=False)
            rel = A.AurelCore(fd, verbose=False, center=mid)
            out = np.asarray(rel['null_ray_exp_out'])
            inn = np.asarray(rel['null_ray_exp_in'])
    except Exception as e:
        res['observations'] += 1
        common.add_violation(res, f"consumer raises {type(e).__name__}", {"param": par, "err": repr(e)[:200]})
        return
    ax = [np.array([par[c + 'min'] + i * par['d' + c] for i in range(N[k])]) - mid[k]
          for k, c in enumerate('xyz')]
    X, Y, Z = np.meshgrid(*ax, indexing='ij')
    rc = np.sqrt(X * X + Y * Y + Z * Z)
    mg = 4                      # away from the one-sided stencils
    I = (slice(mg, -mg),) * 3
    m = rc[I] > 3.0 * max(abs(par['dx']), abs(par['dy']), abs(par['dz']))
    res['observations'] += 1
    if not m.any():
        return
    eo = np.abs(out[I][m] * rc[I][m] / 2 - 1).max()
    ei = np.abs(inn[I][m] * rc[I][m] / 2 + 1).max()
    if not (eo < 0.25 and ei < 0.25):
        common.add_violation(res, "null_ray_exp_* of flat space is not +-2/r about the centre of THIS grid",
                             {"param": par, "center": mid, "err_out": float(eo), "err_in": float(ei)})
    else:
        res['nontrivial'].append(['null rays', str(N), par['xmin'], par['dx']])
