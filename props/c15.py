"""C15 - symbolic core gives the textbook tensors."""
import signal
import numpy as np

from lib import common, jets

LEVEL = "exploration"
RULE = ("case = (dimension 2/3/4, metric class {diagonal, one off-diagonal, "
        "two off-diagonals, dense (2-D, 3-D), block (4-D)}, entries polynomial "
        "/ trigonometric / exponential in every coordinate, simplify flag, a "
        "random permutation of the ten requests). Each returned expression is "
        "evaluated at random rational points and compared with an independent "
        "reference: the metric entries are differentiated twice symbolically, "
        "evaluated, and connection/curvature are computed from the textbook "
        "definitions in floating point (lib/jets.py). simplify=True is run "
        "under a per-case alarm whose firing is inconclusive. non-trivial = "
        "distinct (dimension, metric class, simplify, quantity, arm) where arm "
        "records whether Riemann_uddd was already cached when Riemann_down / "
        "Ricci_down was requested")
ASSUMPTIONS = ["sympy.diff/subs/evalf on the metric entries only; curvature from lib/jets.py"]
TIMEOUT = {"quick": 1500, "thorough": 6000}
MIN_NONTRIVIAL = {"quick": 60, "thorough": 150}
KEYS = ['gdown', 'gup', 'gdet', 'Gamma_udd', 'Gamma_down', 'Riemann_uddd',
        'Riemann_down', 'Ricci_down', 'RicciS', 'Einstein_down']


class Alarm(Exception):
    pass


def _raise(*a):
    raise Alarm()


def metric(sp, coords, cls, rng, poly=False, kink=False):
    n = len(coords)
    R = lambda: sp.Rational(int(rng.integers(1, 7)), int(rng.integers(2, 6)))

    def entry(const):
        c = list(coords)
        rng.shuffle(c)
        kind = int(rng.integers(0, 2 if poly else 4))
        if kink and rng.random() < 0.6:
            # only piecewise smooth in a coordinate that may be negative (C^1)
            return const + R() * c[0] * sp.Abs(c[0])
        if kind == 0:
            return const + R() * c[0]
        if kind == 1:
            return const + R() * c[0] * c[-1]
        if kind == 2:
            return const + R() * sp.sin(c[0])
        return (const + 1) * sp.exp(c[0] / 3)
    g = sp.zeros(n, n)
    for i in range(n):
        g[i, i] = entry(2 + R())
    if n == 4:
        g[0, 0] = -g[0, 0]
    off = []
    if cls == 'offdiag1':
        off = [(0, 1)]                                # shift-like g_tx in 4-D
    elif cls == 'offdiag2':
        off = [(0, 1), (1, 2)] if n >= 3 else [(0, 1)]
    elif cls == 'dense':
        off = [(i, j) for i in range(n) for j in range(i + 1, n)]
    elif cls == 'block':
        off = [(0, 1), (2, 3)]
    for (i, j) in off:
        e = sp.Rational(1, 5) * entry(0)
        others = [c for q, c in enumerate(coords) if q not in (i, j)]
        if len(others) >= 2 and rng.random() < 0.5:
            # depends on the two coordinates the entry does not carry
            # (components such as R_0312 with four distinct indices)
            e = sp.Rational(1, 5) * R() * others[0] * others[1]
        g[i, j] = g[j, i] = e
    return g


def cases(tier, sd):
    out = []
    wide = [(2, 'diagonal'), (2, 'dense'), (3, 'diagonal'), (3, 'offdiag1'),
            (4, 'diagonal'), (4, 'offdiag1'), (4, 'block')]
    if tier == "thorough":
        wide += [(3, 'offdiag2'), (3, 'dense'), (4, 'offdiag2')]
    reps = 2 if tier == "quick" else 4
    lim = 300 if tier == "quick" else 1500
    for r in range(reps):
        for (n, cls) in wide:
            out.append(dict(dim=n, cls=cls, simplify=False,
                            seed=1000 * sd + 10 * r + n, limit=lim))
    simp = [(2, 'dense'), (2, 'diagonal'), (3, 'diagonal')]
    if tier == "thorough":
        simp += [(4, 'diagonal'), (3, 'offdiag1'), (2, 'dense'), (2, 'offdiag1')]
    for k, (n, cls) in enumerate(simp):
        out.append(dict(dim=n, cls=cls, simplify=True, poly=True,
                        seed=1000 * sd + 500 + k, limit=lim))
    # metrics that are only piecewise smooth (x|x|), evaluated on both sides
    for k, (n, cls, simp_) in enumerate([(2, 'diagonal', True), (3, 'diagonal', True),
                                         (2, 'dense', True), (4, 'diagonal', False)]):
        out.append(dict(dim=n, cls=cls, simplify=simp_, poly=True, kink=True,
                        seed=1000 * sd + 700 + k, limit=lim))
    # slowest first so that they start at once on their own shard
    out.sort(key=lambda c: (not c['simplify'], c['cls'] not in ('dense', 'offdiag2', 'block')))
    return out


def reference(sp, g, coords, pts):
    n = len(coords)
    exprs = []
    for a in range(n):
        for b in range(n):
            exprs.append(g[a, b])
    d1 = [[[sp.diff(g[a, b], c) for b in range(n)] for a in range(n)] for c in coords]
    # (x|x| differentiates to terms x*DiracDelta(x), which vanish wherever the
    #  result is evaluated: never at a kink)
    nodelta = lambda ex: ex.replace(sp.DiracDelta, lambda *a: sp.Integer(0)) if hasattr(ex, 'replace') else ex
    d2 = [[[[nodelta(sp.diff(d1[ci][a][b], e)) for b in range(n)] for a in range(n)]
           for e in coords] for ci in range(n)]
    f = sp.lambdify(coords, [g.tolist(), d1, d2], 'mpmath')
    import mpmath
    mpmath.mp.dps = 30
    out = []
    for P in pts:
        G, dG, ddG = f(*[mpmath.mpf(p.p) / p.q for p in P])
        G = np.array(G, dtype=float)
        dG = np.array(dG, dtype=float)
        ddG = np.array(ddG, dtype=float)
        cur = jets.curvature(G, dG, ddG)
        Ein = cur['Ricci'] - 0.5 * cur['RicciS'] * G
        out.append({'gdown': G, 'gup': cur['gup'], 'gdet': np.linalg.det(G),
                    'Gamma_udd': cur['Gamma'], 'Gamma_down': cur['Gamma_down'],
                    'Riemann_uddd': cur['Riem_uddd'], 'Riemann_down': cur['Riem_down'],
                    'Ricci_down': cur['Ricci'], 'RicciS': cur['RicciS'],
                    'Einstein_down': Ein})
    return out


def evaluate(sp, expr, coords, P):
    sub = dict(zip(coords, P))
    if hasattr(expr, 'shape') and expr.shape != ():
        arr = np.zeros(tuple(expr.shape))
        it = np.nditer(arr, flags=['multi_index'])
        for _ in it:
            e = expr[it.multi_index]
            arr[it.multi_index] = float(sp.sympify(e).subs(sub).evalf(25))
        return arr
    return float(sp.sympify(expr).subs(sub).evalf(25))


def run_case(spec):
    import sympy as sp
    from aurel.coresymbolic import AurelCoreSymbolic
    res = common.new_result(spec)
    rng = np.random.default_rng([int(spec['seed']), 15])
    n = spec['dim']
    coords = list(sp.symbols('t x y z', real=True))[4 - n:] if n < 4 else \
        list(sp.symbols('t x y z', real=True))
    g = metric(sp, coords, spec['cls'], rng, poly=spec.get('poly', False), kink=spec.get('kink', False))
    pts = [[sp.Rational(int(rng.integers(2, 12)), 10) for _ in coords]
           for _ in range(3)]
    if spec.get('kink'):      # both sides of the kinks
        pts = [[q * int(rng.choice([-1, 1])) for q in pt] for pt in pts]
    ref = reference(sp, g, coords, pts)
    order = list(rng.permutation(KEYS))
    signal.signal(signal.SIGALRM, _raise)
    signal.alarm(int(spec['limit']))
    got = {}
    arms = {}
    try:
        with common.Quiet():
            rel = AurelCoreSymbolic(coords, verbose=False, simplify=spec['simplify'])
            rel.data['gdown'] = g
            for k in order:
                if k in ('Riemann_down', 'Ricci_down'):
                    arms[k] = 'from_cached_Riemann_uddd' if 'Riemann_uddd' in rel.data else 'direct'
                got[k] = rel[k]
    except Alarm:
        res['status'] = 'inconclusive'
        res['notes'].append(f"alarm after {spec['limit']} s during symbolic computation "
                            f"(done: {list(got)})")
    except Exception as e:
        signal.alarm(0)
        common.add_violation(res, f"raises {type(e).__name__}",
                             {"err": repr(e)[:300], "order": [str(k) for k in order]})
        return res
    tag = [n, spec['cls'], 'simplify' if spec['simplify'] else 'raw']
    diag = spec['cls'] == 'diagonal'
    try:
        for k, expr in got.items():
            judge_key(sp, res, spec, k, expr, coords, pts, ref, arms, order, g, tag, diag)
    except Alarm:
        if res['status'] == 'held':
            res['status'] = 'inconclusive'
        res['notes'].append(f"alarm after {spec['limit']} s during evaluation")
    finally:
        signal.alarm(0)
    return res


def judge_key(sp, res, spec, k, expr, coords, pts, ref, arms, order, g, tag, diag):
    n = spec['dim']
    worst, sc = 0.0, 0.0
    bad_shape = False
    for P, rf in zip(pts, ref):
        v = evaluate(sp, expr, coords, P)
        w = rf[k]
        if np.shape(v) != np.shape(w):
            bad_shape = True
            break
        worst = max(worst, float(np.abs(np.asarray(v) - w).max()))
        sc = max(sc, float(np.abs(w).max()))
        if k == 'Einstein_down':
            # G_ab is a difference of two terms and vanishes identically in two
            # dimensions: aurel carries the factor 0.5 as a float, so its simplified
            # expression is exact only to round-off relative to the terms subtracted
            sc = max(sc, float(np.abs(rf['Ricci_down']).max()
                               + 0.5 * abs(rf['RicciS']) * np.abs(rf['gdown']).max()))
    res['observations'] += 1
    arm = arms.get(k, '')
    mech = f"{k}{('#' + arm) if arm else ''} [{'diagonal' if diag else 'non-diagonal'}, simplify={spec['simplify']}]"
    if bad_shape:
        common.add_violation(res, mech + " shape", {"order": [str(o) for o in order]})
    elif not worst <= 1e-8 * max(sc, 1e-6):
        common.add_violation(res, mech, {
            "max_err": worst, "scale": sc, "dim": n, "cls": spec['cls'],
            "order": [str(o) for o in order], "metric": str(g)[:400]})
    else:
        res['nontrivial'].append(tag + [k, arm])
