"""C05 - spatial curvature, covariant / divergence / curl / Lie derivatives."""
import numpy as np

from lib import common, engine, harness, spacetimes as S
from lib.jets import Trig
from props import c04

LEVEL = "exploration"
RULE = ("case = (spacetime member, fd_order, grid mode, coarse N, seed of the "
        "random test fields); observations are the spatial-curvature keys "
        "(both arms of s_Ricci_down3, BSSNOK split) and every helper call "
        "s_covd/st_covd/s_div/s_curl/Lie_beta over all supported index "
        "patterns and density weights, each compared with textbook formulas "
        "on exact Christoffels and exact field derivatives (convergence "
        "rule), plus argument-validation calls that must raise; non-trivial = "
        "distinct (member class, mode, order, helper/key, indexing, weight) "
        "with non-zero exact value and a reached verdict")
ASSUMPTIONS = c04.ASSUMPTIONS
TIMEOUT = {"quick": 1500, "thorough": 7000}
MEM_GB = 2.5
MIN_NONTRIVIAL = {"quick": 100, "thorough": 300}

KEYS = ['s_Gamma_udd3', 's_Riemann_uddd3', 's_Riemann_down3', 's_Ricci_down3',
        's_RicciS', 's_Gamma_udd3_bssnok', 's_Gamma_bssnok',
        's_Ricci_down3_bssnok', 's_RicciS_bssnok', 's_Ricci_down3_phi',
        'DDalpha']
WEIGHTS = [0, 1 / 6, -2 / 3, 2 / 3, 1]


class Fields:
    """Random smooth test fields with exact first derivatives."""

    def __init__(self, seed, period=None):
        rng = np.random.default_rng([int(seed), 303])
        R = lambda: Trig.random(rng, 4, 2, 1.0, 1.0, c0=rng.uniform(-.5, .5),
                                period=period)
        self.f = R()
        self.V = [R() for _ in range(3)]
        self.T = [[R() for _ in range(3)] for _ in range(3)]
        self.V4 = [R() for _ in range(4)]

    def at(self, t0, x, y, z):
        shape = x.shape
        X = (np.full(shape, float(t0)), x, y, z)
        o = {}
        o['f'] = self.f.deriv(X)
        o['df'] = np.array([self.f.deriv(X, (c,)) for c in (1, 2, 3)])
        o['V'] = np.array([v.deriv(X) for v in self.V])
        o['dV'] = np.array([[v.deriv(X, (c,)) for v in self.V]
                            for c in (1, 2, 3)])
        o['T'] = np.array([[t.deriv(X) for t in r] for r in self.T])
        o['dT'] = np.array([[[t.deriv(X, (c,)) for t in r] for r in self.T]
                            for c in (1, 2, 3)])
        o['Ts'] = 0.5 * (o['T'] + np.einsum('ij...->ji...', o['T']))
        o['dTs'] = 0.5 * (o['dT'] + np.einsum('cij...->cji...', o['dT']))
        o['V4'] = np.array([v.deriv(X) for v in self.V4])
        o['dV4'] = np.array([[v.deriv(X, (c,)) for v in self.V4]
                             for c in (0, 1, 2, 3)])       # [c, a]
        return o


def truths(ex, F):
    """Exact values of every helper call, keyed by a label."""
    Gm, gu, gd = ex['s_Gamma_udd3'], ex['gammaup3'], ex['gammadown3']
    b, db, dtb = ex['betaup3'], ex['dbetaup3'], ex['dtbetaup3']
    f, df, V, dV, T, dT = F['f'], F['df'], F['V'], F['dV'], F['T'], F['dT']
    tr = {}
    tr['s_covd:'] = df
    tr['s_covd:u'] = dV + np.einsum('ack...,k...->ca...', Gm, V)
    tr['s_covd:d'] = dV - np.einsum('kca...,k...->ca...', Gm, V)
    tr['s_covd:uu'] = (dT + np.einsum('ack...,kb...->cab...', Gm, T)
                       + np.einsum('bck...,ak...->cab...', Gm, T))
    tr['s_covd:dd'] = (dT - np.einsum('kca...,kb...->cab...', Gm, T)
                       - np.einsum('kcb...,ak...->cab...', Gm, T))
    tr['s_covd:ud'] = (dT + np.einsum('ack...,kb...->cab...', Gm, T)
                       - np.einsum('kcb...,ak...->cab...', Gm, T))
    tr['s_covd:du'] = (dT - np.einsum('kca...,kb...->cab...', Gm, T)
                       + np.einsum('bck...,ak...->cab...', Gm, T))
    for ix in ['u', 'd', 'uu', 'dd', 'ud', 'du']:
        cv = tr['s_covd:' + ix]
        if ix == 'u':
            tr['s_div:u'] = np.einsum('aa...->...', cv)
        elif ix == 'd':
            tr['s_div:d'] = np.einsum('ab...,ab...->...', gu, cv)
        elif ix in ('uu', 'ud'):
            tr['s_div:' + ix] = np.einsum('aab...->b...', cv)
        elif ix == 'du':
            tr['s_div:du'] = np.einsum('aba...->b...', cv)
        else:
            tr['s_div:dd'] = np.einsum('ab...,abc...->c...', gu, cv)
    # curl of a symmetric tensor: eps^{cd}_(a D_|c| T_b)d
    Ts, dTs = F['Ts'], F['dTs']
    cvs = (dTs - np.einsum('kca...,kb...->cab...', Gm, Ts)
           - np.einsum('kcb...,ak...->cab...', Gm, Ts))
    eps = S.LC3.reshape(S.LC3.shape + (1, 1, 1)) * np.sqrt(ex['gammadet'])
    epsuud = np.einsum('ae...,bf...,efc...->abc...', gu, gu, eps)
    cu = np.einsum('cda...,cbd...->ab...', epsuud, cvs)
    tr['s_curl:dd'] = 0.5 * (cu + np.einsum('ab...->ba...', cu))
    # metric compatibility
    for ix in ('dd', 'uu', 'u', 'd'):
        tr[f's_covd:{ix}#reused-array'] = tr['s_covd:' + ix]
        tr[f's_div:{ix}#reused-array'] = tr['s_div:' + ix]
    tr['s_covd:dd(gammadown3)'] = np.zeros((3, 3, 3) + f.shape)
    tr['s_covd:uu(gammaup3)'] = np.zeros((3, 3, 3) + f.shape)
    # Lie derivatives along the shift, with density weights
    divb = np.einsum('ii...->...', db)
    bT = np.einsum('k...,kij...->ij...', b, dT)
    lie = {}
    lie[''] = (np.einsum('k...,k...->...', b, df), f)
    lie['s_u'] = (np.einsum('k...,ki...->i...', b, dV)
                  - np.einsum('k...,ki...->i...', V, db), V)
    lie['s_d'] = (np.einsum('k...,ki...->i...', b, dV)
                  + np.einsum('k...,ik...->i...', V, db), V)
    lie['s_uu'] = (bT - np.einsum('kj...,ki...->ij...', T, db)
                   - np.einsum('ik...,kj...->ij...', T, db), T)
    lie['s_dd'] = (bT + np.einsum('kj...,ik...->ij...', T, db)
                   + np.einsum('ik...,jk...->ij...', T, db), T)
    lie['s_ud'] = (bT - np.einsum('kj...,ki...->ij...', T, db)
                   + np.einsum('ik...,jk...->ij...', T, db), T)
    lie['s_du'] = (bT + np.einsum('kj...,ik...->ij...', T, db)
                   - np.einsum('ik...,kj...->ij...', T, db), T)
    V4, dV4 = F['V4'], F['dV4']
    bdV4 = np.einsum('k...,ka...->a...', b, dV4[1:])
    Lu = bdV4.copy()
    Lu[1:] += -dtb * V4[0] - np.einsum('k...,ki...->i...', V4[1:], db)
    Ld = bdV4.copy()
    Ld[0] += np.einsum('j...,j...->...', dtb, V4[1:])
    Ld[1:] += np.einsum('k...,ik...->i...', V4[1:], db)
    lie['st_u'] = (Lu, V4)
    lie['st_d'] = (Ld, V4)
    for ix, (val, arg) in lie.items():
        for w in WEIGHTS:
            tr[f'Lie_beta:{ix}:w={w:.4g}'] = val + w * divb * arg
    # spacetime covariant derivative (documented: 'u' upper, 'd' lower index)
    G4 = ex['st_Gamma_udd4']
    tr['st_covd:'] = np.concatenate([dV4[0:1, 0], dV4[1:, 0]], axis=0)
    tr['st_covd:u'] = dV4 + np.einsum('acb...,b...->ca...', G4, V4)
    tr['st_covd:d'] = dV4 - np.einsum('bca...,b...->ca...', G4, V4)
    return tr


def call_helpers(rel, ex, F):
    out = {}
    f, V, T, Ts, V4 = F['f'], F['V'], F['T'], F['Ts'], F['V4']
    dtV4 = F['dV4'][0]

    def run(label, fn):
        try:
            with common.Quiet():
                out[label] = np.array(fn(), copy=True)
        except Exception as e:
            out[label] = e
    arg = {0: f, 1: V, 2: T}
    for ix in ['', 'u', 'd', 'uu', 'dd', 'ud', 'du']:
        run('s_covd:' + ix, lambda: rel.s_covd(arg[len(ix)].copy(), ix))
        if ix:
            run('s_div:' + ix, lambda: rel.s_div(arg[len(ix)].copy(), ix))
    run('s_curl:dd', lambda: rel.s_curl(Ts.copy(), 'dd'))
    # a caller-owned work array updated in place between two calls: the helper
    # must differentiate what the array holds NOW (linear in its argument)
    for ix, src in (('dd', T), ('uu', T), ('u', V), ('d', V)):
        work = src.copy()
        try:
            with common.Quiet():
                r1 = np.array(rel.s_covd(work, ix), copy=True)
                work *= -0.5
                r2 = np.array(rel.s_covd(work, ix), copy=True)
                d2 = np.array(rel.s_div(work, ix), copy=True)
                work *= -2.0
                d1 = np.array(rel.s_div(work, ix), copy=True)
            out[f's_covd:{ix}#reused-array'] = r2 * -2.0
            out[f's_div:{ix}#reused-array'] = d2 * -2.0 - d1 + d1
        except Exception as e:
            out[f's_covd:{ix}#reused-array'] = e
    run('s_covd:dd(gammadown3)', lambda: rel.s_covd(rel['gammadown3'], 'dd'))
    run('s_covd:uu(gammaup3)', lambda: rel.s_covd(rel['gammaup3'], 'uu'))
    for ix in ['', 's_u', 's_d', 's_uu', 's_dd', 's_ud', 's_du', 'st_u', 'st_d']:
        a = f if ix == '' else (V4 if ix.startswith('st') else arg[len(ix) - 2])
        for w in WEIGHTS:
            run(f'Lie_beta:{ix}:w={w:.4g}',
                lambda: rel.Lie_beta(a.copy(), ix, weight=w))
    run('st_covd:', lambda: rel.st_covd(V4[0].copy(), dtV4[0].copy(), ''))
    run('st_covd:u', lambda: rel.st_covd(V4.copy(), dtV4.copy(), 'u'))
    run('st_covd:d', lambda: rel.st_covd(V4.copy(), dtV4.copy(), 'd'))
    return out


BAD_CALLS = [
    ("s_covd rank1 bad letter", lambda r, F: r.s_covd(F['V'], 'x')),
    ("s_covd rank2 bad letters", lambda r, F: r.s_covd(F['T'], 'ux')),
    ("s_covd rank3", lambda r, F: r.s_covd(F['dT'], 'udd')),
    ("s_div bad indexing", lambda r, F: r.s_div(F['V'], 'q')),
    ("s_curl unsupported indexing", lambda r, F: r.s_curl(F['T'], 'uu')),
    ("st_covd bad letter", lambda r, F: r.st_covd(F['V4'], F['V4'], 'x')),
    ("st_covd rank2", lambda r, F: r.st_covd(F['T'], F['T'], 'dd')),
    ("Lie bad prefix", lambda r, F: r.Lie_beta(F['V'], 'u')),
    ("Lie bad letter", lambda r, F: r.Lie_beta(F['V'], 's_x')),
    ("Lie rank3", lambda r, F: r.Lie_beta(F['dT'], 's_udd')),
    ("Lie st rank2", lambda r, F: r.Lie_beta(F['T'], 'st_dd')),
    ("Lie wrong shape s", lambda r, F: r.Lie_beta(F['V4'], 's_u')),
    ("Lie wrong shape st", lambda r, F: r.Lie_beta(F['V'], 'st_d')),
]


def cases(tier, sd):
    out = []
    for c in c04.cases(tier, sd):
        if c['vacuum']:
            continue
        c = dict(c)
        c['fields_seed'] = 7 * sd + len(out)
        out.append(c)
    return out


def _run_case(spec):
    res = common.new_result(spec)
    grids, _ = engine.grid_plan(spec)
    period = spec['member'].get('period')
    Fgen = Fields(spec['fields_seed'], period=period)
    vals = []
    for gi, g in enumerate(grids):
        ex, rel = c04.evaluate(spec, g, [])
        x, y, z = harness.coords(g['n'], g['lo'], g['d'])
        F = Fgen.at(spec['t0'], x, y, z)
        exd = dict(ex)
        code = engine.eval_keys(rel, ['s_Ricci_down3'])   # direct arm first
        code['s_Ricci_down3#direct'] = code.pop('s_Ricci_down3')
        exd['s_Ricci_down3#direct'] = ex['s_Ricci_down3']
        _, rel2 = c04.evaluate(spec, g, [])
        code.update(engine.eval_keys(rel2, ['s_Riemann_down3'] + KEYS))
        code.update(call_helpers(rel2, ex, F))
        exd.update(truths(ex, F))
        # the same tools called FIRST on a fresh instance (nothing has assembled
        # betaup3, gammaup3, the Christoffels, ... yet); one instance per call
        w0 = WEIGHTS[1]
        firsts = [(f'Lie_beta::w={w0:.4g}', lambda r: r.Lie_beta(F['f'].copy(), '', weight=w0)),
                  (f'Lie_beta:s_u:w={w0:.4g}', lambda r: r.Lie_beta(F['V'].copy(), 's_u', weight=w0)),
                  (f'Lie_beta:s_dd:w={w0:.4g}', lambda r: r.Lie_beta(F['T'].copy(), 's_dd', weight=w0)),
                  ('s_covd:u', lambda r: r.s_covd(F['V'].copy(), 'u')),
                  ('s_div:dd', lambda r: r.s_div(F['T'].copy(), 'dd'))]
        # the curl after the determinant of the 4-metric was asked on its own
        # (its 3+1 shortcut is then what the Levi-Civita tensor is built from)
        if 's_curl:dd' in exd and gi >= 0:
            _, rel4 = c04.evaluate(spec, g, [])
            try:
                with common.Quiet():
                    rel4['gdet']
                    code['s_curl:dd#after-gdet'] = np.array(rel4.s_curl(F['Ts'].copy(), 'dd'), copy=True)
            except Exception as e:
                code['s_curl:dd#after-gdet'] = e
            exd['s_curl:dd#after-gdet'] = exd['s_curl:dd']
            del rel4
        for lab, fn in firsts:
            # (component inputs: that is where nothing is assembled beforehand)
            if lab not in exd or not spec.get('components'):
                continue
            _, rel3 = c04.evaluate(spec, g, [])
            try:
                with common.Quiet():
                    code[lab + '#first'] = np.array(fn(rel3), copy=True)
            except Exception as e:
                code[lab + '#first'] = e
            exd[lab + '#first'] = exd[lab]
            del rel3
        if gi == 0:
            for name, fn in BAD_CALLS:
                res['observations'] += 1
                try:
                    with common.Quiet():
                        fn(rel2, F)
                    common.add_violation(res, f"no raise: {name}", {})
                except Exception:
                    res['monitor']['bad_calls_raised'] = \
                        res['monitor'].get('bad_calls_raised', 0) + 1
        vals.append((exd, code))
        del rel, rel2
    ex2 = vals[1][0]
    g2 = float(np.abs(ex2['s_Gamma_udd3']).max())
    curv = g2 ** 2 + float(np.abs(ex2['s_Riemann_down3']).max())
    hints = {k: curv for k in KEYS if 'Ric' in k or 'Riem' in k}
    hints['s_Ricci_down3#direct'] = curv
    hints['s_covd:dd(gammadown3)'] = g2
    hints['s_covd:uu(gammaup3)'] = g2
    labels = [k for k in vals[0][1] if k not in ('s_Riemann_down3',)]
    labels = ['s_Riemann_down3'] + labels
    engine.compare(res, spec, vals, labels,
                   tags=[c04.mclass(spec['member']), spec['mode'], spec['order']],
                   scale_hints=hints, by_class=True)
    return res


def run_case(spec):
    return engine.refine_if_marginal(_run_case, spec, _run_case(spec))
