"""C17 - bundled analytic spacetimes are what they claim to be."""
import importlib
import numpy as np

from lib import common, harness, spacetimes as S, symjets

LEVEL = "exploration"
RULE = ("case = (solution module, random coordinate time in its domain, random "
        "non-cubic block of points away from coordinate singularities); "
        "observations: numeric vs symbolic metric (analytical=False/True), "
        "Kdown3 vs -alpha Gamma^0_ij from the jets of the module's own metric, "
        "Tdown4 or rho u u + p h (with the module's cosmological constant) vs "
        "(G + Lambda g)/kappa, shipped closed-form scalars (Schwarzschild "
        "Kretschmann and null_ray_exp_out, Conformally-flat st_RicciS), data() "
        "vs the individual functions; jets from sympy derivatives of the "
        "symbolic metric (1e-9 relative), for Szekeres from 8th-order numeric "
        "differences (1e-6); ICPertFLRW: K = -1/2 d_t gamma on EdS and "
        "Hamiltonian residual scaling as amplitude^2. non-trivial = distinct "
        "(module, function, time bucket)")
ASSUMPTIONS = ["sympy differentiation of each module's symbolic metric; lib/jets.py curvature",
               "fluid four-velocity of the homogeneous solutions is the unit normal (comoving)"]
TIMEOUT = {"quick": 1500, "thorough": 5000}
MIN_NONTRIVIAL = {"quick": 40, "thorough": 120}

MODS = {
    'Non_diagonal': dict(t=(1.0, 3.0), box=(-4, 4), matter='T'),
    'Rosquist_Jantzen': dict(t=(0.6, 3.0), box=(-1, 1), matter='T'),
    'Collins_Stewart': dict(t=(0.6, 3.0), box=(-2, 2), matter='fluid'),
    'Harvey_Tsoubelis': dict(t=(0.6, 3.0), box=(-1, 1), matter='T'),
    'Conformally_flat': dict(t=(0.0, 2.0), box=(-1, 1), matter='T'),
    'Schwarzschild_isotropic': dict(t=(0.0, 2.0), box=(0.9, 3.0), matter='T'),
    'LCDM': dict(t=(600.0, 4500.0), box=(-5, 5), matter='fluid', Lam='module'),
    'EdS': dict(t=(600.0, 4500.0), box=(-5, 5), matter='fluid'),
    'Szekeres': dict(t=(600.0, 4500.0), box=(-5, 5), matter='fluid',
                     Lam='LCDM', numeric=True),
}


def cases(tier, sd):
    out = []
    reps = 2 if tier == "quick" else 30
    for name in MODS:
        for r in range(reps):
            out.append(dict(kind='module', module=name, seed=100 * sd + r))
    for r in range(4 if tier == "quick" else 8):      # EdS and LCDM backgrounds
        out.append(dict(kind='icpert', seed=100 * sd + r))
    return out


def mod(name):
    return importlib.import_module('aurel.solutions.' + name)


def symbolic_metric(name, M):
    import sympy as sp
    t, x, y, z = sp.symbols('t x y z', real=True, positive=True)
    if hasattr(M, 'gdown4'):
        g = M.gdown4(t, x, y, z, analytical=True)
    elif name == 'LCDM':
        gij = M.gammadown3(t, x, y, z, analytical=True)
        g = sp.diag(-1, 1, 1, 1)
        g[1:, 1:] = gij
    elif name == 'EdS':
        a2 = M.a(t) ** 2
        g = sp.diag(-1, a2, a2, a2)
    else:
        raise KeyError(name)
    return sp.Matrix(g), (t, x, y, z)


def numeric_metric(M):
    def gfun(t, x, y, z):
        # the modules document a scalar coordinate time
        if np.ndim(t) > 0:
            t = float(np.ravel(t)[0])
        if hasattr(M, 'gdown4'):
            return M.gdown4(t, x, y, z)
        gij = M.gammadown3(t, x, y, z)
        g = np.zeros((4, 4) + x.shape)
        g[0, 0] = -1.0
        g[1:, 1:] = gij
        return g
    return gfun


def close(res, label, tag, got, want, tol, scale=None):
    res['observations'] += 1
    got, want = np.asarray(got, float), np.asarray(want, float)
    try:
        got = np.broadcast_to(got, want.shape)
    except ValueError:
        common.add_violation(res, f"{label} shape", {"got": got.shape, "want": want.shape})
        return
    sc = np.abs(want).max() if scale is None else scale
    err = np.abs(got - want).max()
    if not np.all(np.isfinite(got)) or not err <= tol * max(sc, 1e-300):
        common.add_violation(res, label, {"max_err": float(err), "scale": float(sc),
                                          "tol": tol, "where": tag})
    else:
        res['nontrivial'].append([label, tag])


def run_module(spec, res):
    name = spec['module']
    M = mod(name)
    if name == 'Schwarzschild_isotropic' and spec['seed'] % 2 == 1:
        # the mass is a module constant the user may set before use
        old = M.M
        M.M = [2.5, 0.4][spec['seed'] // 2 % 2]
        try:
            return _run_module(spec, res, tag_extra=f"M={M.M}")
        finally:
            M.M = old
    return _run_module(spec, res)


def _run_module(spec, res, tag_extra=""):
    name = spec['module']
    cfg = MODS[name]
    M = mod(name)
    rng = np.random.default_rng([int(spec['seed']), 17, sum(map(ord, name))])
    t0 = float(rng.uniform(*cfg['t']))
    lo, hi = cfg['box']
    shp = (3, 2, 2)
    x, y, z = (rng.uniform(lo, hi, shp) for _ in range(3))
    if name == 'Schwarzschild_isotropic':
        sg = rng.choice([-1, 1], (3,) + shp)
        x, y, z = x * sg[0], y * sg[1], z * sg[2]
    tbucket = f"t~{t0:.3g}" + (" " + tag_extra if tag_extra else "")
    coords0 = [x.copy(), y.copy(), z.copy()]
    Lam = 0.0
    if cfg.get('Lam') == 'module':
        Lam = float(M.Lambda)
    elif cfg.get('Lam') == 'LCDM':
        Lam = float(mod('LCDM').Lambda)
    kappa = 8 * np.pi
    # ---- jets of the module's own metric
    tol = 1e-9
    if cfg.get('numeric'):
        st = symjets.NumericSpacetime(numeric_metric(M), [t0 * 2e-3, 0.02, 0.02, 0.02], name)
        tol = 1e-6
    else:
        gexpr, syms = symbolic_metric(name, M)
        st = symjets.SymbolicSpacetime(gexpr, syms, name)
    ex = S.exact_fields(st, t0, x, y, z, Lam=Lam, kappa=kappa)
    # ---- numeric vs symbolic metric
    gnum = numeric_metric(M)(t0, x, y, z)
    close(res, f"{name}.gdown4 numeric=symbolic", tbucket, gnum, ex['gdown4'],
          1e-12 if not cfg.get('numeric') else 1e-12)
    if hasattr(M, 'gammadown3') and name not in ('EdS',):
        close(res, f"{name}.gammadown3", tbucket, M.gammadown3(t0, x, y, z),
              ex['gammadown3'], 1e-12)
    if hasattr(M, 'alpha'):
        close(res, f"{name}.alpha", tbucket, M.alpha(t0, x, y, z), ex['alpha'], 1e-12)
    if hasattr(M, 'betaup3'):
        close(res, f"{name}.betaup3", tbucket, M.betaup3(t0, x, y, z), ex['betaup3'],
              1e-12, scale=1.0)
    if hasattr(M, 'gammadown3') and name not in ('EdS',):
        import sympy as sp
        try:
            t, xs, ys, zs = sp.symbols('t x y z', real=True, positive=True)
            gs = sp.Matrix(np.array(M.gammadown3(t, xs, ys, zs, analytical=True), dtype=object).tolist())
            gs_again = sp.Matrix(np.array(M.gammadown3(t, xs, ys, zs, analytical=True), dtype=object).tolist())
            res['observations'] += 1
            if gs_again != gs:
                common.add_violation(res, f"{name}.gammadown3 analytical=True: a second call returns "
                                          "other expressions than the first", {})
            gotall = np.asarray(M.gammadown3(t0, x, y, z)).reshape(3, 3, -1)
            want, got = [], []
            for i in range(4):
                pt = {t: t0, xs: float(x.flat[i]), ys: float(y.flat[i]), zs: float(z.flat[i])}
                # (subs + evalf also evaluates special functions such as hyper)
                want.append(np.array(gs.subs(pt).evalf(25), dtype=float))
                got.append(gotall[:, :, i])
            want, got = np.array(want), np.array(got)
            # component by component (the entries differ by orders of magnitude)
            sc = np.maximum(np.abs(want), 1e-300)
            res['observations'] += 1
            bad = np.abs(got - want) > (1e-9 if cfg.get('numeric') else 1e-12) * np.maximum(sc, 1e-12 * np.abs(want).max())
            if np.any(bad):
                ii = np.argwhere(bad)[0]
                common.add_violation(res, f"{name}.gammadown3 analytical=True/False", {
                    "component": [int(ii[1]), int(ii[2])], "t": t0,
                    "numeric": float(got[tuple(ii)]), "symbolic": float(want[tuple(ii)])})
            else:
                res['nontrivial'].append([f"{name}.gammadown3 analytical=True/False", tbucket])
        except TypeError:
            pass
    # ---- integer-valued coordinates stored with an integer dtype
    if name != 'Schwarzschild_isotropic':
        xi, yi, zi = (np.rint(v).astype(np.int64) for v in (x, y, z))
        xf, yf, zf = (v.astype(float) for v in (xi, yi, zi))
        for fn in ('gammadown3', 'Kdown3', 'gdown4'):
            if hasattr(M, fn):
                res['observations'] += 1
                try:
                    a = np.asarray(getattr(M, fn)(t0, xi, yi, zi), float)
                    b = np.asarray(getattr(M, fn)(t0, xf, yf, zf), float)
                    ok = a.shape == b.shape and np.allclose(a, b, rtol=1e-12, atol=0)
                except Exception:
                    ok = False
                if not ok:
                    common.add_violation(res, f"{name}.{fn} differs for integer-dtype coordinates", {})
                else:
                    res['nontrivial'].append([f"{name}.{fn} int coords", tbucket])
    # ---- what was returned stays what it was when the function is called
    # again for another time on a grid of the same shape (time series)
    t1 = float(np.clip(t0 * 1.07, *cfg['t']))
    if t1 == t0:
        t1 = float(np.clip(t0 * 0.93, *cfg['t']))
    for fn in ('gammadown3', 'Kdown3', 'gdown4', 'Tdown4', 'alpha', 'betaup3', 'rho', 'press'):
        if not hasattr(M, fn):
            continue
        try:
            r1 = getattr(M, fn)(t0, x, y, z)
        except TypeError:
            continue
        if not isinstance(r1, np.ndarray):
            continue
        keep = r1.copy()
        getattr(M, fn)(t1, x, y, z)
        res['observations'] += 1
        if not np.array_equal(r1, keep, equal_nan=True):
            common.add_violation(res, f"{name}.{fn}: an array returned earlier changed when the "
                                      "function was called again", {"t_first": t0, "t_second": t1})
        else:
            res['nontrivial'].append([f"{name}.{fn} result stable", tbucket])
    # ---- extrinsic curvature
    Kscale = max(np.abs(ex['Kdown3']).max(), np.abs(ex['st_Gamma_udd4']).max() * np.abs(ex['gammadown3']).max())
    close(res, f"{name}.Kdown3", tbucket, M.Kdown3(t0, x, y, z), ex['Kdown3'], tol, scale=Kscale)
    # ---- matter content vs Einstein's equations
    gi = ex['gup4']
    curv = float(np.abs(ex['st_Riemann_uddd4']).max() + np.abs(ex['st_Gamma_udd4']).max() ** 2)
    Tscale = (curv * np.abs(ex['gdown4']).max() + abs(Lam) * np.abs(ex['gdown4']).max()) / kappa
    if cfg['matter'] == 'T':
        T = M.Tdown4(t0, x, y, z)
    else:
        try:
            rho = M.rho(t0, x, y, z)
        except TypeError:
            rho = M.rho(t0)
        if not hasattr(M, 'press'):
            p = 0.0
        else:
            try:
                p = M.press(t0, x, y, z)
            except TypeError:
                p = M.press(t0)
        ud = np.array([-ex['alpha']] + [np.zeros(shp)] * 3)
        uu = np.einsum('a...,b...->ab...', ud, ud)
        T = rho * uu + p * (ex['gdown4'] + uu)
    close(res, f"{name} matter vs (G+Lambda g)/kappa", tbucket, T, ex['Tdown4'],
          tol, scale=Tscale)
    if cfg['matter'] == 'fluid':
        rho_ex = np.einsum('ab...,a...,b...->...', ex['Tdown4'], ex['nup4'], ex['nup4'])
        close(res, f"{name}.rho", tbucket, rho, rho_ex, tol * 10, scale=Tscale)
    # ---- shipped scalars
    if name == 'Schwarzschild_isotropic':
        close(res, f"{name}.Kretschmann", tbucket, M.Kretschmann(t0, x, y, z),
              ex['Kretschmann'], 1e-9)
        # outward null expansion of r = const surfaces from the exact fields:
        # Theta = D_i s^i + K_ij s^i s^j - K,  s^i = gamma^ij d_j r / |dr|
        def expansion(x, y, z, ex):
            r = np.sqrt(x * x + y * y + z * z)
            X3 = np.array([x, y, z])
            dr = X3 / r
            ddr = (np.einsum('ij,...->ij...', np.eye(3), 1 / r)
                   - np.einsum('i...,j...->ij...', X3, X3) / r ** 3)
            X = (np.full(x.shape, t0), x, y, z)
            adm = S.adm_from_gJ2(st.gJ2(X))
            gu = ex['gammaup3']
            dgu = np.array([[[adm['gammaup'][i][j].d[c + 1] for j in range(3)]
                             for i in range(3)] for c in range(3)])     # [c,i,j]
            n2 = np.einsum('ij...,i...,j...->...', gu, dr, dr)
            dn2 = (np.einsum('cij...,i...,j...->c...', dgu, dr, dr)
                   + 2 * np.einsum('ij...,ci...,j...->c...', gu, ddr, dr))
            v = np.einsum('ij...,j...->i...', gu, dr)
            dv = (np.einsum('cij...,j...->ci...', dgu, dr)
                  + np.einsum('ij...,cj...->ci...', gu, ddr))
            ds = dv / np.sqrt(n2) - 0.5 * np.einsum('i...,c...->ci...', v, dn2) / n2 ** 1.5
            sup = v / np.sqrt(n2)
            return (np.einsum('ii...->...', ds)
                    + np.einsum('iik...,k...->...', ex['s_Gamma_udd3'], sup)
                    + np.einsum('ij...,i...,j...->...', ex['Kdown3'], sup, sup)
                    - ex['Ktrace'])
        close(res, f"{name}.null_ray_exp_out", tbucket,
              M.null_ray_exp_out(t0, x, y, z), expansion(x, y, z, ex), 1e-9)
        # the same inside the horizon (isotropic radius below M/2), where the
        # areal radius decreases with r and the expansion changes sign
        hz = 0.5 * float(M.M)
        xi, yi, zi = (rng.uniform(0.1 * hz, 0.5 * hz, shp) * rng.choice([-1, 1], shp) for _ in range(3))
        ex_in = S.exact_fields(st, t0, xi, yi, zi, Lam=Lam, kappa=kappa)
        close(res, f"{name}.null_ray_exp_out inside the horizon", tbucket,
              M.null_ray_exp_out(t0, xi, yi, zi), expansion(xi, yi, zi, ex_in), 1e-9)
        close(res, f"{name}.Kretschmann inside the horizon", tbucket,
              M.Kretschmann(t0, xi, yi, zi), ex_in['Kretschmann'], 1e-9)
        # numeric and symbolic lapse are the same function there too (it is
        # negative behind the throat; only alpha^2 enters the 4-metric)
        import sympy as sp
        ts, xs_, ys_, zs_ = sp.symbols('t x y z', real=True)
        try:
            a_sym = M.alpha(ts, xs_, ys_, zs_, analytical=True)
            fa = sp.lambdify((ts, xs_, ys_, zs_), a_sym, 'numpy')
            close(res, f"{name}.alpha numeric=symbolic inside the horizon", tbucket,
                  M.alpha(t0, xi, yi, zi), np.asarray(fa(t0, xi, yi, zi), float) + 0 * xi, 1e-12)
            close(res, f"{name}.alpha numeric=symbolic", tbucket,
                  M.alpha(t0, x, y, z), np.asarray(fa(t0, x, y, z), float) + 0 * x, 1e-12)
        except TypeError:
            pass
    if name == 'Conformally_flat':
        close(res, f"{name}.st_RicciS", tbucket, M.st_RicciS(x), ex['st_RicciS'], 1e-9,
              scale=curv)
    # ---- the caller's coordinate arrays are inputs, not scratch space
    res['observations'] += 1
    if not all(np.array_equal(a, b) for a, b in zip(coords0, [x, y, z])):
        common.add_violation(res, f"{name} modifies the caller's coordinate arrays", {})
        x, y, z = coords0
    # ---- data() agrees with the individual functions
    if hasattr(M, 'data'):
        d = M.data(t0, x, y, z)
        for k, v in d.items():
            res['observations'] += 1
            fn = getattr(M, k, None)
            if fn is None:
                continue
            try:
                w = fn(t0, x, y, z)
            except TypeError:
                w = fn(t0)
            if not np.array_equal(np.asarray(v), np.asarray(w)):
                common.add_violation(res, f"{name}.data()['{k}'] differs from {k}()", {})
            else:
                res['nontrivial'].append([f"{name}.data.{k}", tbucket])


def run_icpert(spec, res):
    """First-order initial data: K = -1/2 d_t gamma (exact on EdS) and the
    Hamiltonian residual is second order in the amplitude."""
    from aurel.solutions import ICPertFLRW, EdS, LCDM
    rng = np.random.default_rng([int(spec['seed']), 171])
    # background: Einstein-de Sitter, or LambdaCDM at times where Lambda matters
    # (there Omega_m and the growth rate differ from 1)
    use_lcdm = bool((int(spec['seed']) // 2) % 2)
    BG = LCDM if use_lcdm else EdS
    Lam = float(LCDM.Lambda) if use_lcdm else 0.0
    N, L = 16, 1821.0
    d = L / N
    fd = harness.make_fd(N, -L / 2, d, order=6, boundary='periodic')
    t0 = float(LCDM.t_today_EdS * rng.uniform(0.4, 1.5) if use_lcdm else EdS.t_today * rng.uniform(0.01, 0.05))
    lam = (L, L, L)
    tag = f"t~{t0:.3g} " + ("LCDM" if use_lcdm else "EdS")
    resid = []
    kk = 2 * np.pi / L
    amps = (2e-5, 1e-5) if use_lcdm else (1e-3, 5e-4)   # keep delta ~ 1e-2 at late times too
    for amp in amps:
        Rc = ICPertFLRW.Rc_func(fd.x, fd.y, fd.z, (amp, amp * 0.7, amp * 1.3), lam)
        if spec['seed'] % 2 == 0:
            # a user-supplied perturbation with non-vanishing mixed derivatives
            Rc = Rc + amp * np.sin(kk * fd.x + 0.3) * np.cos(kk * fd.y) * np.sin(kk * fd.z - 0.2) \
                 + 0.5 * amp * np.sin(kk * (fd.x - fd.y + fd.z))
        with common.Quiet():
            gam = ICPertFLRW.gammadown3(BG, fd, t0, Rc)
            K = ICPertFLRW.Kdown3(BG, fd, t0, Rc)
            h = t0 * 1e-3
            w = {1: 4 / 5, 2: -1 / 5, 3: 4 / 105, 4: -1 / 280}
            dtg = sum(c * (ICPertFLRW.gammadown3(BG, fd, t0 + k * h, Rc)
                           - ICPertFLRW.gammadown3(BG, fd, t0 - k * h, Rc))
                      for k, c in w.items()) / h
        if amp == amps[0] and not use_lcdm:      # (exact on EdS only: F is constant there)
            # per component class, each relative to the size of its own perturbation part
            pert = np.abs(K - K.mean(axis=(-1, -2, -3), keepdims=True)).max()
            close(res, "ICPertFLRW.Kdown3 = -1/2 d_t gammadown3", tag, K, -0.5 * dtg,
                  1e-6, scale=pert)
        with common.Quiet():
            delta = ICPertFLRW.delta1(BG, fd, t0, Rc)
            rel = harness.make_rel(fd, {'gammadown3': gam, 'Kdown3': K,
                                        'rho': BG.rho(t0) * (1 + delta)}, Lambda=Lam)
            H = np.array(rel['Hamiltonian'])
            sc = np.array(rel['Hamiltonian_Escale'])
        resid.append(float(np.abs(H).max() / np.abs(sc).max()))
    res['observations'] += 1
    ratio = resid[0] / max(resid[1], 1e-300)
    res['notes'].append({"hamiltonian_rel_residuals": resid, "ratio": ratio})
    if not (resid[0] < 1e-2 and 2.5 < ratio < 6.0):
        common.add_violation(res, "ICPertFLRW Hamiltonian residual not second order in amplitude",
                             {"residuals": resid, "ratio": ratio})
    else:
        res['nontrivial'].append(["ICPertFLRW amplitude^2 scaling", tag])


def run_case(spec):
    res = common.new_result(spec)
    (run_module if spec['kind'] == 'module' else run_icpert)(spec, res)
    return res
