"""C04 - 4D connection and curvature from 3+1 data match their definitions."""
import numpy as np

from lib import common, engine, harness, spacetimes as S

LEVEL = "exploration"
RULE = ("case = (spacetime family member, fd_order, grid mode open/periodic, "
        "coarse N, Lambda, vacuum flag); every key is compared with the "
        "exact-jet oracle on a grid and on the grid with half the spacing, per "
        "component class (which indices are temporal): algebraic keys to "
        "round-off, differential keys with the convergence rule; non-trivial "
        "= distinct (member class, mode, order, key, component class) whose "
        "exact value is non-zero on the window and whose verdict was reached")
ASSUMPTIONS = ["exact-jet oracle (sinusoid closed forms + 2nd-order AD + numpy.linalg)",
               "convergence rule of DESIGN 1.2; errors below 1e-9*scale are invisible"]
TIMEOUT = {"quick": 1500, "thorough": 7000}
MIN_NONTRIVIAL = {"quick": 60, "thorough": 200}

ALGEBRAIC = ['gdet', 'gdown4', 'gup4']       # gdet first: its 3+1 arm (gdown4 not cached yet)
DIFFERENTIAL = ['st_Ricci_down3', 'st_Gamma_udd4', 'st_Riemann_down4', 'st_Riemann_uddd4',
                'st_Riemann_uudd4', 'st_Ricci_down4', 'st_RicciS',
                'Einsteindown4', 'Kretschmann']

VARIANTS = [dict(), dict(shear=0.4), dict(shift=0.0), dict(lapse=0.0),
            dict(static=True), dict(diagonal=True),
            dict(shear=0.6, eps=0.25), dict(eps=0.05),
            dict(scale=[0.01, 1.0, 100.0])]


def members(tier, sd, period=None):
    out = []
    n = 3 if tier == "quick" else 9
    for i in range(n):
        v = VARIANTS[(i + sd) % len(VARIANTS)] if i else {}
        m = dict(family=S.ADMTrig.name, seed=1000 * sd + i, **v)
        if period:
            m['period'] = period
        out.append(m)
    nv = 2 if tier == "quick" else 4
    for i in range(nv):
        m = dict(family=S.PulledBack.name, seed=1000 * sd + 50 + i,
                 base="minkowski" if i % 2 == 0 else "kasner")
        if period:
            m['period'] = period
        out.append(m)
    # beta^x = 0 identically: with component inputs it is simply not supplied
    m = dict(family=S.ADMTrig.name, seed=1000 * sd + 80, shift_x0=True)
    if period:
        m['period'] = period
    out.append(m)
    # de Sitter in gauge-transformed flat slicing: a Lambda-vacuum (no matter is
    # supplied at all, vacuum=False, Lambda = 3 H^2)
    m = dict(family=S.PulledBack.name, seed=1000 * sd + 70, base="desitter")
    if period:
        m['period'] = period
    out.append(m)
    return out


DESITTER_LAMBDA = 3 * 0.3 ** 2


def cases(tier, sd):
    out = []
    box = (-1.0, 2.0)
    # open boundaries, interior window
    open_orders = [(2, 9), (4, 17)] if tier == "quick" else [(2, 9), (2, 13), (4, 17), (6, 25)]
    for mi, m in enumerate(members(tier, sd)):
        ds = m.get('base') == 'desitter'
        vac_member = m['family'] == S.PulledBack.name and not ds
        for (p, n1) in open_orders:
            if tier == "thorough" and p == 6 and mi % 3:
                continue
            lam = 0.0 if vac_member else [0.0, 0.3, -0.3][(mi + p) % 3]
            if ds:
                lam = DESITTER_LAMBDA
            # (the Lambda-vacuum is run with and without the vacuum flag: 'no matter'
            #  does not mean 'no cosmological constant')
            for vac in ([True, False] if (vac_member or ds) else [False]):
                out.append(dict(member=m, order=p, n1=n1, Lambda=lam,
                                vacuum=vac, box=box, t0=0.3, mode='open',
                                components=bool((mi + p) % 3 == 0 or m.get('shift_x0')), no_T=ds,
                                aniso=bool((mi + p // 2) % 2)))
    # periodic members: every order, all stencils centred
    per_orders = [(6, 12), (8, 16)] if tier == "quick" else [(2, 16), (4, 12), (6, 12), (8, 16), (6, 16)]
    for mi, m in enumerate(members(tier, sd, period=2.0)):
        ds = m.get('base') == 'desitter'
        vac_member = m['family'] == S.PulledBack.name and not ds
        for (p, n1) in per_orders:
            lam = 0.0 if vac_member else [0.3, 0.0, -0.3][(mi + p) % 3]
            if ds:
                lam = DESITTER_LAMBDA
            vac = (vac_member or ds) and (mi + p) % 2 == 0
            out.append(dict(member=m, order=p, n1=n1, Lambda=lam,
                            vacuum=vac, box=box, t0=0.3, mode='periodic',
                            components=bool((mi + p) % 3 == 1 or m.get('shift_x0')), no_T=ds))
    return out


def mclass(m):
    tags = [m['family'].split('-')[0]]
    for k in ('shear', 'shift', 'lapse', 'static', 'diagonal', 'base', 'scale', 'shift_x0'):
        if k in m:
            tags.append(f"{k}={m[k]}")
    return ",".join(tags)


def evaluate(spec, g, keys, extra_inputs=(), rel_kw=None):
    st = S.member(spec['member'])
    x, y, z = harness.coords(g['n'], g['lo'], g['d'])
    ex = S.exact_fields(st, spec['t0'], x, y, z, Lam=spec['Lambda'])
    fd = harness.make_fd(g['n'], g['lo'], g['d'], order=spec['order'],
                         boundary=g['boundary'])
    inp = harness.adm_inputs(ex)
    if spec.get('components'):
        # the same inputs given component by component (ET style)
        ij = [(0, 0), (0, 1), (0, 2), (1, 1), (1, 2), (2, 2)]
        inp = {'alpha': ex['alpha'], 'dtalpha': ex['dtalpha']}
        for nm, (i, j) in zip(['gxx', 'gxy', 'gxz', 'gyy', 'gyz', 'gzz'], ij):
            inp[nm] = ex['gammadown3'][i, j]
        for nm, (i, j) in zip(['kxx', 'kxy', 'kxz', 'kyy', 'kyz', 'kzz'], ij):
            inp[nm] = ex['Kdown3'][i, j]
        for i, c in enumerate('xyz'):
            if c == 'x' and spec['member'].get('shift_x0'):
                continue
            inp['beta' + c] = ex['betaup3'][i]
            inp['dtbeta' + c] = ex['dtbetaup3'][i]
    if not spec['vacuum'] and not spec.get('no_T'):
        inp['Tdown4'] = ex['Tdown4']
    for k in extra_inputs:
        inp[k] = ex[k]
    kw = dict(Lambda=spec['Lambda'], vacuum=spec['vacuum'],
              clear_cache_every_nbr_calc=10**9, memory_threshold_inGB=1e9)
    kw.update(rel_kw or {})
    rel = harness.make_rel(fd, inp, **kw)
    return ex, rel


def _run_case(spec):
    res = common.new_result(spec)
    grids, _ = engine.grid_plan(spec)
    vals = []
    # st_Ricci_down3 first (matter route: Tdown4, rho0, ... get cached on the
    # way) or the Riemann tensor first (nothing of the matter sector cached yet)
    order = list(ALGEBRAIC + DIFFERENTIAL)
    if (spec['member'].get('seed', 0) + spec['order'] // 2 + int(bool(spec.get('no_T')))) % 2 \
            or spec['member'].get('shift_x0'):
        order = ['st_Riemann_down4', 'Kretschmann'] + [k for k in order
                                                       if k not in ('st_Riemann_down4', 'Kretschmann')]
    for g in grids:
        ex, rel = evaluate(spec, g, ALGEBRAIC + DIFFERENTIAL)
        vals.append((ex, engine.eval_keys(rel, order)))
        del rel
    ex2 = vals[1][0]
    hint = float(np.abs(ex2['st_Gamma_udd4']).max() ** 2
                 + np.abs(ex2['ddalpha']).max()
                 + np.abs(ex2['s_Riemann_down3']).max())
    hints = {k: hint for k in DIFFERENTIAL if k != 'st_Gamma_udd4'}
    hints['Kretschmann'] = hint ** 2
    engine.compare(res, spec, vals, DIFFERENTIAL, algebraic=ALGEBRAIC,
                   tags=[mclass(spec['member']) + (',comp' if spec.get('components') else ''),
                         spec['mode'], spec['order']],
                   scale_hints=hints)
    res['monitor']['vacuum_flag_cases'] = int(bool(spec['vacuum']))
    res['monitor']['ricci_from_riemann_arm'] = int(bool(spec['vacuum']))
    return res


def run_case(spec):
    return engine.refine_if_marginal(_run_case, spec, _run_case(spec))
