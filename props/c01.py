"""C01 - the lazy cache is transparent (value independent of request history)."""
import os
import time
import numpy as np

from lib import common, harness, history as H, monitor, spacetimes as S

LEVEL = "exploration"
RULE = ("case = (spatially periodic spacetime member, input style {tensors, "
        "components, fluid variables, vacuum flag}, Lambda, tetrad, grid N, "
        "fd_order, cache settings (clean-up period 1..20, memory threshold from "
        "below one scalar to 1e3 scalars, importance overrides on non-frozen "
        "keys), biased random walk of 5..40 requests over key families that "
        "share a cache-state guard + uniformly drawn keys + helper calls). "
        "EVERY request of the walk is an observation: its value is compared "
        "with a fresh, eviction-free instance holding only the inputs and "
        "asked for that one request: (i) equal to round-off, else (ii) the "
        "whole walk is replayed at doubled resolution with the memory "
        "threshold scaled by 8 and the difference must shrink like the "
        "discretisation error, else (iii) violation; an exception that the "
        "fresh instance does not raise is a violation. non-trivial = distinct "
        "(requested key, set of cached keys at request time, hit/miss) "
        "observed after at least one eviction")
ASSUMPTIONS = ["fresh-instance oracle: same inputs, eviction disabled, single request",
               "tier (ii) accepts differences that converge away at rate >= 2^(p-2)"]
TIMEOUT = {"quick": 2400, "thorough": 9000}
MEM_GB = 2.5
MIN_NONTRIVIAL = {"quick": 120, "thorough": 1500}

STYLES = ['tensor', 'components', 'fluid0', 'tensor', 'solution', 'vacuum']


def cases(tier, sd):
    rng = np.random.default_rng([int(sd), 1])
    n = 72 if tier == "quick" else 800
    out = []
    for i in range(n):
        style = STYLES[i % len(STYLES)]
        if style in ('vacuum', 'fluid0'):
            m = dict(family=S.PulledBack.name, seed=int(rng.integers(1 << 20)),
                     base=['minkowski', 'kasner'][i % 2], period=2.0)
            if (i // 6) % 3 == 2:
                # a Lambda-vacuum (de Sitter): 'no matter' with Lambda = 3 H^2
                m['base'] = 'desitter'
        elif style == 'solution':
            m = dict(family='solution',
                     module=['Collins_Stewart', 'Szekeres', 'LCDM'][int(rng.integers(3))])
        else:
            v = [dict(), dict(shear=0.4), dict(lapse=0.0), dict(shift=0.0),
                 dict(shift_x0=True)][int(rng.integers(5))]
            m = dict(family=S.ADMTrig.name, seed=int(rng.integers(1 << 20)),
                     period=2.0, **v)
        scal = 8.0 * 7 ** 3 / 1024 ** 3
        out.append(dict(
            member=m, style='tensor' if style == 'vacuum' else style,
            vacuum=(style == 'vacuum'),
            Lambda=(0.27 if m.get('base') == 'desitter' else
                    float(rng.choice([0.0, 0.0, 0.2, -0.1]))
                    if style in ('tensor', 'components') else 0.0),
            tetrad=[None, None, 'fluid'][int(rng.integers(3))],
            center=([float(v) for v in rng.uniform(-0.2, 0.2, 3)] if rng.random() < 0.5 else None),
            n1=(9 if style == 'solution' else int(rng.choice([6, 7, 8]))),
            order=(2 if style == 'solution' else int(rng.choice([2, 4]))),
            mode=('open' if style == 'solution' else 'periodic'),
            noncubic=([int(v) for v in rng.permutation(3)]
                      if style != 'solution' and rng.random() < 0.4 else None),
            cache=dict(every=int(rng.choice([1, 2, 3, 5, 8, 20])),
                       gb=float(scal * 10 ** rng.uniform(-0.5, 3.0)),
                       importance=({'s_Gamma_udd3': float(rng.choice([0.002, 1.0, 50.0])),
                                    'gammaup3': float(rng.choice([1e-9, 1.0, 1e9]))}
                                   if rng.random() < 0.4 else None)),
            length=int(rng.integers(5, 41)), hseed=int(rng.integers(1 << 30))))
    # directed family sweeps: every key of one guard family, in two random
    # orders back to back (all intra-family "x cached, then y derived from it,
    # then x again" situations), no eviction and eviction at every step
    reps = 3 if tier == "quick" else 8
    for rep in range(reps):
        for fi, fam in enumerate(H.FAMILIES):
            vac = bool((fi + rep) % 4 == 3)
            m = (dict(family=S.PulledBack.name, seed=int(rng.integers(1 << 20)),
                      base='kasner', period=2.0) if vac else
                 dict(family=S.ADMTrig.name, seed=int(rng.integers(1 << 20)), period=2.0))
            out.append(dict(member=m, style=['tensor', 'components'][(fi + rep) % 2],
                            vacuum=vac, Lambda=0.0 if vac else 0.2, tetrad=None,
                            center=None, n1=6, order=2, mode='periodic', noncubic=None,
                            cache=dict(every=[10 ** 6, 1, 3][(fi + rep) % 3],
                                       gb=(1e9 if (fi + rep) % 3 == 0 else 8.0 * 216 / 1024 ** 3 * 60),
                                       importance=None),
                            length=0, family=fam, hseed=int(rng.integers(1 << 30))))
    # "only the components of one tensor are left" states, one case per family
    for fi, fam in enumerate(H.FAMILIES):
        F = [k for k in H.FAMILIES[fam] if k in H.all_keys()]
        if not component_groups(F):
            continue
        out.append(dict(kind='groups', family=fam, offshell=True,
                        member=dict(family=S.ADMTrig.name, seed=int(rng.integers(1 << 20)), period=2.0),
                        style=['tensor', 'components'][fi % 2], vacuum=False, Lambda=0.2, tetrad=None,
                        center=None, n1=6, order=2, mode='periodic', noncubic=None,
                        cache=dict(every=10 ** 6, gb=1e9, importance=None),
                        length=0, hseed=int(rng.integers(1 << 30))))
    # ordered pairs of related keys, each on its own eviction-free instance
    nch = 16 if tier == "quick" else 64
    for c in range(nch):
        gen = bool(tier == "thorough" and c % 4 == 3)
        m = (dict(family=S.PulledBack.name, seed=int(rng.integers(1 << 20)), base='kasner', period=2.0)
             if gen else dict(family=S.ADMTrig.name, seed=int(rng.integers(1 << 20)), period=2.0,
                              shift_x0=bool(c % 4 == 1)))
        out.append(dict(kind='pairs', member=m, style=['tensor', 'components'][c % 2],
                        vacuum=gen, Lambda=0.0 if gen else 0.2, tetrad=None, center=None,
                        n1=6, order=2, mode='periodic', noncubic=None,
                        cache=dict(every=10 ** 6, gb=1e9, importance=None),
                        chunk=c % 16, nchunks=16, nrandom=(10 if tier == "quick" else 120),
                        length=0, hseed=int(rng.integers(1 << 30))))
    return out


GUARDED = ['gtt', 'gtx', 'gty', 'gtz', 'gxx', 'gxy', 'gxz', 'gyy', 'gyz', 'gzz',
           'kxx', 'kxy', 'kxz', 'kyy', 'kyz', 'kzz', 'betax', 'betay', 'betaz',
           'dtbetax', 'dtbetay', 'dtbetaz', 'rho0', 'eps', 'Ttrace', 'gdet',
           's_Ricci_down3', 'st_Ricci_down4', 'st_Ricci_down3', 'Momentumup3',
           'st_Weyl_down4', 'Weyl_Psi', 's_to_st', 'cleanup_cache']


# cap on one walk (a request whose inner loops re-derive an evicted tensor
# thousands of times is legitimate but slow); what was requested so far is judged
WALK_BUDGET_S = {"quick": 150, "thorough": 600}


def traced_functions():
    from aurel import core
    return [getattr(core.AurelCore, k) for k in GUARDED if hasattr(core.AurelCore, k)]


def run_walk(spec, n, ops, scale_gb=1.0, fresh_for=None, ledger=None, audit=None,
             trace=None, fresh_cache=None):
    """Run the walk on an n^3 periodic grid; returns per-op records."""
    lo, L = -1.0, 2.0
    if spec['member']['family'] == 'solution':
        lo, L = H.SOLUTIONS[spec['member']['module']]['box']
    if spec.get('mode', 'periodic') == 'periodic':
        if spec.get('noncubic'):          # three different sizes and spacings
            f = n // spec['n1']
            n = tuple(f * (spec['n1'] + k) for k in spec['noncubic'])
            d = tuple(L / k for k in n)
        else:
            d = L / n
        fd = harness.make_fd(n, lo, d, order=spec['order'], boundary='periodic')
    else:
        d = L / (n - 1)
        fd = harness.make_fd(n, lo, d, order=spec['order'])
    inputs, ex = H.build_inputs(spec, n, d, lo)
    cache = dict(spec['cache'], gb=spec['cache']['gb'] * scale_gb)
    recs = []
    fresh_cache = {} if fresh_cache is None else fresh_cache
    import contextlib
    tr = monitor.BranchTrace(traced_functions()) if trace is not None else contextlib.nullcontext()
    with monitor.CoreProbe() as probe, tr:
        rel = H.new_instance(spec, fd, inputs, cache)
        st = probe.state(rel)
        if ledger is not None:
            ledger.register(inputs, "input:", "start")
            ledger.register(rel.data, "cache:", "start")
            # the grid object is shared by every instance built on it
            ledger.register({k: getattr(fd, k) for k in (
                'xarray', 'yarray', 'zarray', 'x', 'y', 'z', 'r', 'theta', 'phi',
                'cartesian_coords', 'spherical_coords')}, "grid:", "start")
        t_walk = time.time()
        for i, op in enumerate(ops):
            if time.time() - t_walk > WALK_BUDGET_S.get(os.environ.get('VERIF_TIER', 'quick'), 150):
                break       # work cap: the remaining requests are simply not explored
            cached = frozenset(rel.data)
            ev0 = st.counters['evict_regular'] + st.counters['evict_memory']
            status, val = H.do_op(rel, op)
            rec = dict(i=i, op=op, status=status, val=val, cached=cached,
                       hit=(op[0] == 'key' and op[1] in cached), evictions_before=ev0)
            if audit is not None:
                audit(i, op, rel, val if status == 'ok' else None)
            recs.append(rec)
        events = list(st.events)
        counters = dict(st.counters)
        pviol = list(st.violations)
    if trace is not None:
        cmap = H.cleanup_line_map()
        for (q, l), c in tr.lines.items():
            if q.endswith('cleanup_cache'):
                if l in cmap:
                    trace['path:' + cmap[l]] = trace.get('path:' + cmap[l], 0) + c
            else:
                trace[f"{q.split('.')[-1]}:+{l}"] = trace.get(f"{q.split('.')[-1]}:+{l}", 0) + c
    for rec in recs:
        if (fresh_for is not None and rec['i'] not in fresh_for) or rec['op'][0] in ('evict', 'keep'):
            continue
        k = rec['op']
        if k not in fresh_cache:
            fr = H.new_instance(spec, fd, inputs, None)
            fresh_cache[k] = H.do_op(fr, k)
            del fr
        rec['fresh'] = fresh_cache[k]
    return recs, events, counters, pviol


def related_pairs():
    """Ordered pairs of keys with related names (one contains the other, same
    stem, long common prefix): where a cache shortcut between two quantities
    would plausibly be written."""
    import re
    keys = H.all_keys()

    def stem(k):
        k = re.sub(r'^(dts_|dt|st_|s_)', '', k)
        return re.sub(r'(_bssnok|up3|down3|up4|down4|mixed4|_udd3|_udd4|_n|_u|trace|mag|det)$', '', k)
    return sorted((a, b) for a in keys for b in keys if a != b and (
        a in b or b in a or stem(a) == stem(b) or len(os.path.commonprefix([a, b])) >= 5))


def run_pairs(spec):
    """'a then b' on a fresh eviction-free instance, for every related ordered
    pair of this chunk (+ random pairs): b must equal its fresh value."""
    res = common.new_result(spec)
    keys = H.all_keys()
    rng = np.random.default_rng([int(spec['hseed']), 5])
    pairs = related_pairs()[spec['chunk']::spec['nchunks']]
    pairs += [(keys[int(rng.integers(len(keys)))], keys[int(rng.integers(len(keys)))])
              for _ in range(spec['nrandom'])]
    shared, shared2 = {}, {}
    t0 = time.time()
    for a, b in pairs:
        if a == b:
            continue
        if time.time() - t0 > 4 * WALK_BUDGET_S.get(os.environ.get('VERIF_TIER', 'quick'), 150):
            res['monitor']['pairs_not_explored_work_cap'] = 1
            break
        judge(res, spec, [('key', a), ('key', b)], None, shared, shared2, pair=True)
        res['monitor']['pairs'] = res['monitor'].get('pairs', 0) + 1
    return res


def component_groups(F):
    """Sets of keys of one family that are the components of one tensor."""
    import re
    g = {}
    for k in F:
        m = re.match(r'^(.*?)(xx|xy|xz|yy|yz|zz|x|y|z)(_norm)?$', k)
        if m and m.group(1):
            g.setdefault((m.group(1), m.group(3) or ''), []).append(k)
    return [sorted(v) for v in g.values() if len(v) >= 3]


def run_groups(spec):
    """Cache states in which only the components of ONE tensor of a family
    survive a clean-up (the tensor they came from, and everything else, gone):
    every key of the family is then requested and must equal its fresh value."""
    res = common.new_result(spec)
    keys = H.all_keys()
    F = [k for k in H.FAMILIES[spec['family']] if k in keys]
    shared, shared2 = {}, {}
    for G in component_groups(F):
        for target in F:
            if target in G:
                continue
            ops = [('key', k) for k in G] + [('keep', tuple(G)), ('key', target)]
            judge(res, spec, ops, None, shared, shared2, pair=True, nskip=len(G) + 1, exact=True)
            res['monitor']['group_states'] = res['monitor'].get('group_states', 0) + 1
    return res


def run_case(spec):
    if spec.get('kind') == 'pairs':
        return run_pairs(spec)
    if spec.get('kind') == 'groups':
        return run_groups(spec)
    res = common.new_result(spec)
    keys = H.all_keys()
    rng = np.random.default_rng([int(spec['hseed']), 3])
    ops = H.gen_history(rng, spec['length'], keys)
    if spec.get('family'):
        F = [k for k in H.FAMILIES[spec['family']] if k in keys]
        # (between the passes half of what is cached is evicted: states such as
        #  "components cached, the tensor they came from gone")
        ops = [('key', F[i]) for i in rng.permutation(len(F))] + \
              [('evict', int(rng.integers(1 << 30)))] + \
              [('key', F[i]) for i in rng.permutation(len(F))] + \
              [('evict', int(rng.integers(1 << 30)))] + \
              [('key', F[i]) for i in rng.permutation(len(F))]
    # "x, y, x" triplets inside one guard family: the second x is a cache hit
    # that must still equal the fresh value after y was computed from it
    fams = list(H.FAMILIES)
    for _ in range(2):
        F = [k for k in H.FAMILIES[fams[int(rng.integers(len(fams)))]] if k in keys]
        x, y = F[int(rng.integers(len(F)))], F[int(rng.integers(len(F)))]
        pos = int(rng.integers(len(ops) + 1))
        ops[pos:pos] = [('key', x), ('key', y), ('key', x)]
    if spec['hseed'] % 2 == 0 and not spec.get('family'):
        for _ in range(int(rng.integers(1, 4))):
            ops.insert(int(rng.integers(1, len(ops) + 1)), ('evict', int(rng.integers(1 << 30))))
    trace = {}
    judge(res, spec, ops, trace if spec['hseed'] % 3 == 0 else None)
    return res


def judge(res, spec, ops, trace, shared=None, shared2=None, pair=False, nskip=1, exact=False):
    p = spec['order']
    recs, events, counters, _ = run_walk(spec, spec['n1'], ops, trace=trace, fresh_cache=shared)
    for k, v in counters.items():
        if k != 'nested_max':
            res['monitor'][k] = res['monitor'].get(k, 0) + v
    if trace is not None:
        res['monitor']['arms'] = {k: v for k, v in trace.items()}
    if pair:
        recs = recs[nskip:]      # the leading requests of a pair / group state are fresh requests themselves
    if len(recs) < len(ops) - (nskip if pair else 0):
        res['monitor']['walks_truncated_by_work_cap'] = 1
        res['notes'].append(f"walk stopped after {len(recs)} of {len(ops)} requests (work cap)")
    cands = []
    for r in recs:
        if r['op'][0] in ('evict', 'keep'):
            continue
        res['observations'] += 1
        fs, fv = r['fresh']
        name = r['op'][1] if r['op'][0] == 'key' else 'helper ' + r['op'][1]
        if r['status'] == 'raise':
            if fs == 'raise' and type(fv) is type(r['val']):
                continue              # unsupported for these inputs, history or not
            common.add_violation(res, f"{name} raises {type(r['val']).__name__} after a history",
                                 {"history": [o[1] for o in ops[:r['i'] + 1]],
                                  "cache": spec['cache'], "error": repr(r['val'])[:200]})
            continue
        if fs == 'raise':
            res['notes'].append(f"fresh raises but history returns for {name}: {fv!r}"[:200])
            continue
        ok, err, sc = H.compare(r['val'], fv)
        if not ok:
            common.add_violation(res, f"{name} structure differs from fresh instance",
                                 {"history": [o[1] for o in ops[:r['i'] + 1]]})
            continue
        r['err'], r['scale'] = err, sc
        if err <= 1e-10 * max(sc, 1e-300) or err <= 1e-13:
            if pair:
                res['nontrivial'].append(['pair', ops[0][1], name])
            elif r['evictions_before'] > 0:
                res['nontrivial'].append([name, common.jhash(sorted(r['cached'])), r['hit']])
            continue
        if exact:
            # off-shell inputs: no alternative derivation is allowed to differ
            common.add_violation(res, f"{name} differs from fresh instance",
                                 {"history": [o[1] for o in ops[:r['i'] + 1]], "err": err, "scale": sc,
                                  "inputs": "matter not sourcing the geometry (round-off agreement required)"})
            continue
        cands.append(r)
    if cands:
        res['monitor']['tier2_candidates'] = res['monitor'].get('tier2_candidates', 0) + len(cands)
        idx = {r['i'] for r in cands}
        openm = spec.get('mode', 'periodic') == 'open'
        n2 = 2 * spec['n1'] - 1 if openm else 2 * spec['n1']
        recs2, events2, _, _ = run_walk(spec, n2, ops[:max(idx) + 1],
                                        scale_gb=(n2 / spec['n1']) ** 3, fresh_for=idx,
                                        fresh_cache=shared2)
        w1 = w2 = None
        if openm:       # interior window: every nested stencil centred
            mg = 2 * (p // 2)
            w1 = ((spec['n1'],) * 3, (slice(mg, spec['n1'] - mg),) * 3)
            w2 = ((n2,) * 3, (slice(2 * mg, n2 - 2 * mg),) * 3)
        same_trace = ([e for e in events2] == [e for e in events[:len(events2)]])
        marginal = []
        for r in cands:
            name = r['op'][1] if r['op'][0] == 'key' else 'helper ' + r['op'][1]
            if r['i'] >= len(recs2):          # doubled-grid replay stopped by the work cap
                res['notes'].append(f"tier2 replay did not reach {name}: not judged")
                res['monitor']['tier2_not_reached'] = res['monitor'].get('tier2_not_reached', 0) + 1
                continue
            r2 = recs2[r['i']]
            det = {"history": [o[1] for o in ops[:r['i'] + 1]], "cache": spec['cache'],
                   "style": spec['style'], "vacuum": spec['vacuum'],
                   "err_N": r['err'], "scale": r['scale'], "order": p, "n1": spec['n1']}
            if r2['status'] != 'ok' or r2['fresh'][0] != 'ok':
                res['notes'].append(f"tier2 raise for {name}")
                res['status'] = 'inconclusive' if res['status'] == 'held' else res['status']
                continue
            ok, e2, sc2 = H.compare(r2['val'], r2['fresh'][1], window=w2)
            e1 = r['err']
            if openm:
                _, e1, _ = H.compare(r['val'], r['fresh'][1], window=w1)
            det.update(err_N_window=e1, err_2N=e2, same_trace=same_trace)
            sc = max(sc2, r['scale'], 1e-300)
            need = max(2.0 ** (p - 2), 2.0)
            # (no bound on the size of e2: histories run on very coarse grids;
            #  a stale / wrong-branch value does not shrink at all)
            if e2 <= 1e-9 * sc or e1 / max(e2, 1e-300) >= need:
                res['monitor']['tier2_accepted'] = res['monitor'].get('tier2_accepted', 0) + 1
                if pair:
                    res['nontrivial'].append(['pair', ops[0][1], name, 'tier2'])
                elif r['evictions_before'] > 0:
                    res['nontrivial'].append([name, common.jhash(sorted(r['cached'])), r['hit'], 'tier2'])
            elif not same_trace:
                res['notes'].append(f"tier2 trace mismatch for {name}: inconclusive")
                res['monitor']['tier2_trace_mismatch'] = res['monitor'].get('tier2_trace_mismatch', 0) + 1
            elif not openm and spec['n1'] <= 9:
                # not (yet) shrinking at the asymptotic rate on these very coarse grids
                # (6-9 points per period; products of curvatures such as the Weyl
                # invariants are not even monotonic there): judged on the next pair,
                # where a stale or wrong-branch value still does not shrink at all
                marginal.append((r, name, det, e2, sc))
            else:
                common.add_violation(res, f"{name} differs from fresh instance", det)
        if marginal:
            n4 = 2 * n2
            idx4 = {r['i'] for r, *_ in marginal}
            recs4, events4, _, _ = run_walk(spec, n4, ops[:max(idx4) + 1],
                                            scale_gb=(n4 / spec['n1']) ** 3, fresh_for=idx4)
            for r, name, det, e2, sc in marginal:
                if r['i'] >= len(recs4) or recs4[r['i']]['status'] != 'ok' or recs4[r['i']]['fresh'][0] != 'ok':
                    res['notes'].append(f"tier2 (finer pair) did not reach {name}: not judged")
                    res['monitor']['tier2_not_reached'] = res['monitor'].get('tier2_not_reached', 0) + 1
                    continue
                _, e4, sc4 = H.compare(recs4[r['i']]['val'], recs4[r['i']]['fresh'][1])
                det.update(err_4N=e4)
                if e4 <= 1e-9 * max(sc, sc4) or e2 / max(e4, 1e-300) >= need:
                    res['monitor']['tier2_accepted_on_finer_pair'] = \
                        res['monitor'].get('tier2_accepted_on_finer_pair', 0) + 1
                else:
                    common.add_violation(res, f"{name} differs from fresh instance", det)


def coverage_check(tier, monitor_totals, results):
    out = []
    if monitor_totals.get('evict_regular', 0) + monitor_totals.get('evict_memory', 0) == 0:
        out.append("no eviction was observed in any history")
    arms = monitor_totals.get('arms', {})
    for pth in ('path:regular-strain', 'path:memory-loop'):
        if not arms.get(pth):
            out.append(f"eviction {pth} never executed")
    # both arms of every cache-state guard: at least 2 distinct body lines seen
    from collections import Counter
    per_fn = Counter(k.split(':')[0] for k in arms if not k.startswith('path:'))
    missing = [g for g in GUARDED[:-1] if per_fn.get(g, 0) < 2 and g not in ('s_to_st',)]
    if len(missing) > 6:
        out.append(f"guard arms not reached for {missing}")
    return out
