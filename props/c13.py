"""C13 - save_data / read_data round trip in Aurel format (reference model)."""
import copy
import os
import shutil
import tempfile

import h5py
import numpy as np

from lib import common, harness

LEVEL = "exploration"
RULE = ("case = random sequence of 3..10 save_data calls on one directory "
        "(data dicts with arbitrary iteration values in arbitrary order, with "
        "or without an 'it' column, scalar and tensor shaped entries, ragged "
        "None entries, 't' column; it / vars subsets; refinement levels 0, 1, 2, 10, 11; six dtypes incl. overwrites with another dtype; "
        "datapath with or without trailing slash; overwriting saves) "
        "interleaved with random read_data calls. Reference model: dict "
        "(iteration, variable, level) -> last array saved for it. After every "
        "operation reads are compared bitwise with the model (None where "
        "nothing was saved, one entry per requested iteration in every column, "
        "discovery of variables when vars=[]), every dataset of every "
        "it_N.hdf5 on disk is compared with the model, and the caller's "
        "arguments with their snapshots. non-trivial = distinct (subset class, "
        "ordering class, None class, slash, overwrite depth, read class)")
ASSUMPTIONS = ["sequential reference model of the store; h5py re-scan of the directory"]
TIMEOUT = {"quick": 900, "thorough": 3000}
MIN_NONTRIVIAL = {"quick": 40, "thorough": 120}

LEVELS = [0, 0, 1, 1, 10, 11, 2]
VARS = ['rho', 'alpha', 'gammadown3', 'Kdown3', 'betaup3', 'my var', 'Weyl_Psi4r']
SHAPES = {'rho': (3, 2, 4), 'alpha': (3, 2, 4), 'gammadown3': (3, 3, 3, 2, 4),
          'Kdown3': (3, 3, 3, 2, 4), 'betaup3': (3, 3, 2, 4), 'my var': (2,),
          'Weyl_Psi4r': (3, 2, 4)}


def cases(tier, sd):
    n = 48 if tier == "quick" else 1500
    return [dict(seed=10000 * sd + i) for i in range(n)]


def scan_disk(path):
    out = {}
    if not os.path.isdir(path):
        return out
    for fn in sorted(os.listdir(path)):
        if fn.startswith('it_') and fn.endswith('.hdf5'):
            it = int(fn[3:-5])
            with h5py.File(os.path.join(path, fn), 'r') as f:
                for k in f.keys():
                    v, rl = k.rsplit(' rl=', 1)
                    out[(it, v, int(rl))] = np.array(f[k])
    return out


def run_case(spec):
    res = common.new_result(spec)
    A = harness.aurel()
    rng = np.random.default_rng([int(spec['seed']), 13])
    os.makedirs(common.WORK, exist_ok=True)
    root = tempfile.mkdtemp(dir=common.WORK, prefix="c13_")
    slash = bool(rng.random() < 0.5)
    # the directory name is the user's: glob / regex / HDF5-path characters included
    DIRS = ['store', 'store', 'run[1]', 'res_32[dx=0.5]', 'with space', 'it_5', 'a*b', 'q?', 'rl=1', 'store.hdf5']
    path = os.path.join(root, DIRS[int(spec['seed']) % len(DIRS)])
    param = {'datapath': path + ('/' if slash else '')}
    model = {}
    tagsl = 'slash' if slash else 'noslash'
    overwrites = 0
    try:
        nops = int(rng.integers(3, 11))
        pool = sorted(int(v) for v in rng.choice(np.arange(0, 60), 12, replace=False))
        for opi in range(nops):
            # ------------------------------------------------ save
            k = int(rng.integers(1, 6))
            its = [int(v) for v in rng.choice(pool, k, replace=False)]
            order_cls = 'sorted' if its == sorted(its) else 'unsorted'
            with_it = bool(rng.random() < 0.75)
            if not with_it:
                its = sorted(its)
                order_cls = 'no-it-column'
            nv = int(rng.integers(1, 5))
            vs = [str(v) for v in rng.choice(VARS, nv, replace=False)]
            data = {}
            if with_it:
                data['it'] = list(its)
            if rng.random() < 0.7:
                data['t'] = ([0.5 * i + 0.25 for i in its] if rng.random() < 0.7
                             else [int(i + 1) for i in its])
            none_cls = 'full'
            dts = ['float64', 'float64', 'float32', 'int64', 'int32', 'complex128']
            for v in vs:
                dt = dts[int(rng.integers(len(dts)))]
                col = [(rng.normal(size=SHAPES[v]) * 100).astype(dt) if dt != 'complex128'
                       else (rng.normal(size=SHAPES[v]) + 1j * rng.normal(size=SHAPES[v]))
                       for _ in its]
                if rng.random() < 0.25 and len(its) > 1:
                    col[int(rng.integers(len(its)))] = None
                    none_cls = 'ragged-None'
                data[v] = col
            sub_it = list(its)
            sub_cls = 'all-it'
            if with_it and len(its) > 1 and rng.random() < 0.5:
                m = int(rng.integers(1, len(its)))
                sub_it = [int(v) for v in rng.choice(its, m, replace=False)]
                sub_cls = 'subset-it'
            kw = dict(it=list(sub_it))
            sub_v = None
            if rng.random() < 0.5:
                m = int(rng.integers(1, len(vs) + 1))
                sub_v = [str(v) for v in rng.choice(vs, m, replace=False)]
                kw['vars'] = list(sub_v)
                sub_cls += '+subset-vars'
            rl = int(rng.choice(LEVELS))
            if rl:
                kw['rl'] = rl
            snap = (copy.deepcopy(data), copy.deepcopy(kw))
            psnap = dict(param)
            res['observations'] += 1
            try:
                with common.Quiet():
                    A.save_data(param, data, **kw)
            except Exception as e:
                common.add_violation(
                    res, f"save_data raises {type(e).__name__} [{none_cls}, {sub_cls}, {order_cls}]",
                    {"err": repr(e)[:200], "it": sub_it, "data_it": data.get('it'),
                     "vars": sub_v, "none": none_cls})
                break
            # caller's arguments untouched
            from props.c02 import same
            if not same(data, snap[0]) or not same(kw, snap[1]) or param != psnap:
                common.add_violation(res, "save_data modifies its arguments",
                                     {"kw_before": snap[1], "kw_after": kw})
            # update the model: the entry that belongs to iteration i
            saved_vars = list(sub_v) if sub_v is not None else [v for v in data]
            for extra in ('it', 't'):
                if extra in data and extra not in saved_vars:
                    saved_vars.append(extra)
            for iit in sorted(set(sub_it)):
                idx = data['it'].index(iit) if with_it else sorted(set(sub_it)).index(iit)
                for v in saved_vars:
                    val = data[v][idx]
                    if val is None:
                        continue
                    if (iit, v, rl) in model:
                        overwrites += 1
                    model[(iit, v, rl)] = np.asarray(val)
            # ------------------------------------------------ disk vs model
            disk = scan_disk(path)
            res['observations'] += 1
            bad = None
            if set(disk) != set(model):
                extra_k = sorted(set(disk) - set(model))[:3]
                miss_k = sorted(set(model) - set(disk))[:3]
                bad = ("files on disk hold other (iteration, variable, level) entries than were saved",
                       {"extra": extra_k, "missing": miss_k})
            else:
                for key, arr in model.items():
                    if (disk[key].shape != arr.shape or disk[key].dtype != arr.dtype
                            or not np.array_equal(disk[key], arr)):
                        bad = ("dataset on disk differs from the array saved for its iteration",
                               {"key": key, "order": order_cls, "subset": sub_cls})
                        break
            if bad:
                common.add_violation(res, f"{bad[0]} [{sub_cls}, {order_cls}, {none_cls}]",
                                     dict(bad[1], save_it=sub_it, data_it=data.get('it'),
                                          vars=sub_v))
                break
            # ------------------------------------------------ read
            for _ in range(2):
                known_its = sorted({k[0] for k in model})
                rk = int(rng.integers(1, 6))
                missing = [int(v) for v in rng.choice(np.arange(0, 64), 3) if int(v) not in known_its]
                rits = [int(v) for v in rng.choice(known_its + missing + [62], rk)]
                rrl = int(rng.choice(LEVELS))
                known_vars = sorted({k[1] for k in model if k[1] not in ('it',)})
                allv = bool(rng.random() < 0.3)
                rvars = [] if allv else [str(v) for v in rng.choice(
                    known_vars + ['never_saved'], min(int(rng.integers(1, 4)), len(known_vars) + 1), replace=False)]
                if rvars and rng.random() < 0.3:      # a name listed twice is one column
                    rvars = rvars + [rvars[int(rng.integers(len(rvars)))]]
                rkw = dict(it=list(rits), vars=list(rvars))
                if rrl:
                    rkw['rl'] = rrl
                rsnap = copy.deepcopy(rkw)
                res['observations'] += 1
                try:
                    with common.Quiet():
                        out = A.read_data(param, **rkw)
                except Exception as e:
                    common.add_violation(res, f"read_data raises {type(e).__name__}",
                                         {"err": repr(e)[:200], "kw": rsnap})
                    continue
                if not same(rkw, rsnap) or param != psnap:
                    common.add_violation(res, "read_data modifies its arguments",
                                         {"param_before": psnap, "param_after": dict(param)})
                    param.clear()
                    param.update(psnap)
                uits = sorted(set(rits))
                rd_cls = ('all-vars' if allv else 'named-vars')
                if [int(i) for i in out['it']] != uits:
                    common.add_violation(res, "read_data 'it' column", {"want": uits,
                                         "got": [int(i) for i in out['it']]})
                    continue
                want_vars = set(rvars) | {'t'}
                if allv:
                    want_vars = {k[1] for k in model if k[2] == rrl and k[0] in uits
                                 and k[1] != 'it'} | {'t'}
                got_vars = set(out.keys()) - {'it'}
                prob = None
                if got_vars != want_vars:
                    prob = ("read_data returns a different set of variables",
                            {"want": sorted(want_vars), "got": sorted(got_vars)})
                else:
                    for v in want_vars:
                        col = out[v]
                        if len(col) != len(uits):
                            prob = ("column length differs from the number of requested iterations",
                                    {"var": v, "len": len(col), "n_it": len(uits)})
                            break
                        for j, iit in enumerate(uits):
                            exp = model.get((iit, v, rrl))
                            g = col[j]
                            if exp is None:
                                if g is not None:
                                    prob = ("value returned where nothing was saved",
                                            {"var": v, "it": iit})
                                    break
                            elif g is None:
                                prob = (f"None returned for a saved entry [{tagsl}]",
                                        {"var": v, "it": iit, "rl": rrl})
                                break
                            elif (np.shape(g) != exp.shape or np.asarray(g).dtype != exp.dtype
                                  or not np.array_equal(np.asarray(g), exp)):
                                prob = ("read_data returns other data than was saved for that iteration",
                                        {"var": v, "it": iit})
                                break
                        if prob:
                            break
                if prob:
                    common.add_violation(res, prob[0], dict(prob[1], kw=rsnap))
                else:
                    res['nontrivial'].append([sub_cls, order_cls, none_cls, tagsl,
                                              min(overwrites, 3), rd_cls])
        # ---- a save asked for an iteration the dictionary does not hold (inside
        # the range of the ones it holds): refused or ignored, never filed with the
        # data of a neighbouring iteration
        have = sorted({k[0] for k in model})
        gaps = [i for i in range(min(have) + 1, max(have)) if i not in have] if have else []
        if gaps:
            a = int(gaps[len(gaps) // 2])
            lo_, hi_ = max(i for i in have if i < a), min(i for i in have if i > a)
            d2 = {'it': [lo_, hi_], 't': [0.5 * lo_, 0.5 * hi_],
                  'probe_var': [np.full((2, 2, 2), float(lo_)), np.full((2, 2, 2), float(hi_))]}
            res['observations'] += 1
            try:
                with common.Quiet():
                    A.save_data(param, d2, it=[a], vars=['probe_var'])
            except Exception:
                pass
            with common.Quiet():
                back = A.read_data(param, it=[a], vars=['probe_var'])
            if back.get('probe_var', [None])[0] is not None:
                common.add_violation(res, "save_data filed data under an iteration the dictionary does not hold",
                                     {"asked": a, "held": [lo_, hi_]})
            else:
                res['nontrivial'].append(['absent-iteration save refused', tagsl])
    finally:
        shutil.rmtree(root, ignore_errors=True)
    return res
