"""C12 - the per-iteration read cache never changes what read_data returns."""
import os
import shutil
import tempfile

import h5py
import numpy as np

from lib import common, etgen, harness
from props import c11

LEVEL = "exploration"
RULE = ("case = generated simulation directory (all four layouts, grouped "
        "files with several variables per file, several restarts with "
        "overlapping iterations, 1..3 levels) + a history of 2..8 read_data "
        "calls starting from an empty cache, arguments drawn from subsets of "
        "its iterations x variables x levels, tensor names vs component "
        "names, unsorted iteration lists, split_per_it True/False interleaved. "
        "(a) every array / time returned by every call is compared bitwise "
        "with the generator truth; (b) after every call every dataset of every "
        "all_iterations/it_N.hdf5 is re-read and must hold the data of the "
        "variable, iteration and level it is filed under (and of the restart "
        "whose directory it lives in). non-trivial = distinct (layout, "
        "hit/miss pattern of a call) where some call found a partially filled "
        "cache (>= 1 hit and >= 1 miss)")
ASSUMPTIONS = c11.ASSUMPTIONS
TIMEOUT = {"quick": 1800, "thorough": 7000}
MIN_NONTRIVIAL = {"quick": 25, "thorough": 150}
INV = {a: v for v, (_, _, a) in etgen.VARS.items()}


def cases(tier, sd):
    n = 72 if tier == "quick" else 1000
    return [dict(seed=20000 * sd + i) for i in range(n)]


TENSOR_SETS = [['gxx', 'gxy', 'gxz', 'gyy', 'gyz', 'gzz', 'alp'],
               ['kxx', 'kxy', 'kxz', 'kyy', 'kyz', 'kzz', 'rho'],
               ['alp', 'betax', 'betay', 'betaz'], ['M1', 'M2', 'M3'],
               ['vel[0]', 'vel[1]', 'vel[2]', 'rho', 'eps'],
               # names that are suffixes of other names in the same cache file
               ['dtalp', 'alp'], ['dtbetax', 'dtbetay', 'dtbetaz', 'betax', 'betay', 'betaz'],
               ['dtalp', 'alp', 'dtbetax', 'dtbetay', 'dtbetaz', 'betax', 'betay', 'betaz']]


def product_spec(seed):
    """A c11 spec restricted to layouts the reader must support; biased
    towards grouped files holding the components of a tensor, which is where a
    call can find the cache partially filled for ONE requested name."""
    rng = np.random.default_rng([int(seed), 121])
    for k in range(50):
        spec = c11.gen_spec(seed * 64 + k, 'quick')
        same_count = len({len(l['boxes']) for l in spec['levels'].values()}) == 1
        if all(etgen.is_product(l['boxes']) for l in spec['levels'].values()) \
                and (spec['layout'] != 'proc' or same_count):
            # (per-process files hold every level: a level with fewer components
            #  than there are process files is a directory the reader may refuse)
            break
    if rng.random() < 0.65:
        spec['vars'] = list(TENSOR_SETS[int(rng.integers(len(TENSOR_SETS)))])
        spec['grouped'] = bool(rng.random() < 0.8)
        spec['custom_group'] = None
    return spec


def biased_request(rng, spec, prev):
    """Component names first, tensor names later, iterations overlapping the
    earlier requests: the partial-cache situations."""
    avail = [etgen.aurel_name(v) for v in spec['vars']]
    tens = [t for t, comps in etgen.TENSORS.items() if all(c in avail for c in comps)]
    if not tens or rng.random() < 0.3:
        return c11.aurel_request(rng, spec)
    t = tens[int(rng.integers(len(tens)))]
    comps = etgen.TENSORS[t]
    if not prev or rng.random() < 0.45:
        k = int(rng.integers(1, len(comps)))
        return [comps[i] for i in sorted(rng.choice(len(comps), k, replace=False))], False
    others = [a for a in avail if a not in comps]
    extra = [others[int(rng.integers(len(others)))]] if others and rng.random() < 0.5 else []
    if rng.random() < 0.3:
        # the tensor name together with one of its own components, or a
        # repeated name: each must still come back once, aligned with 'it'
        extra = extra + [comps[int(rng.integers(len(comps)))]]
        if rng.random() < 0.5:
            extra = extra + [extra[-1]]
    return [t] + extra, True


def scan_cache(param, spec):
    """{(restart, it, name, rl): array} for every cached dataset."""
    out = {}
    base = os.path.join(param['simpath'], param['simname'])
    for r in range(len(spec['restarts'])):
        d = os.path.join(base, f'output-{r:04d}', param['simname'], 'all_iterations')
        if not os.path.isdir(d):
            continue
        for fn in os.listdir(d):
            if fn.startswith('it_') and fn.endswith('.hdf5'):
                it = int(fn[3:-5])
                with h5py.File(os.path.join(d, fn), 'r') as f:
                    for k in f.keys():
                        v, rl = k.rsplit(' rl=', 1)
                        out[(r, it, v, int(rl))] = np.array(f[k])
    return out


def run_case(spec0):
    res = common.new_result(spec0)
    A = harness.aurel()
    rng = np.random.default_rng([int(spec0['seed']), 12])
    spec = product_spec(spec0['seed'])
    os.makedirs(common.WORK, exist_ok=True)
    top = tempfile.mkdtemp(dir=common.WORK, prefix="c12_")
    root = top
    if spec0['seed'] % 4 == 1:
        # the cache lives inside the simulation tree: its behaviour must not
        # depend on what the tree or the simulation is called
        HOST = ['my.file_sims', 'checkpoint.chkpt', 'run.it_8.h5', 'all_iterations', 'it_12',
                'with space', 'bracket[0]', 'rl=1']
        root = os.path.join(top, HOST[(spec0['seed'] // 4) % len(HOST)])
        os.makedirs(root)
        if (spec0['seed'] // 4) % 2:
            spec['simname'] = HOST[(spec0['seed'] // 7) % len(HOST)]
    ltag = [spec['layout'], 'grouped' if spec['grouped'] else 'ungrouped',
            f"restarts={len(spec['restarts'])}"]
    try:
        param = etgen.make_sim(root, spec)
        ncalls = int(rng.integers(2, 9))
        prev_its = {}
        for ci in range(ncalls):
            rl = int(rng.choice(list(spec['levels'])))
            all_its = sorted({i for rs in spec['restarts'] for i in rs['its'].get(rl, [])})
            req = [int(v) for v in rng.choice(all_its, int(rng.integers(1, min(len(all_its), 5) + 1)),
                                              replace=False)]
            prev = [i for i in prev_its.get(rl, []) if i in all_its]
            if prev and rng.random() < 0.7:
                pv = prev[int(rng.integers(len(prev)))]
                req = sorted(set(req) | {pv})
                j = all_its.index(pv)
                if 0 < j < len(all_its) - 1 and rng.random() < 0.6:
                    # an already cached iteration strictly inside the new request
                    req = [all_its[int(rng.integers(0, j))], pv,
                           all_its[int(rng.integers(j + 1, len(all_its)))]]
            # iterations cached at ANOTHER level, and iterations whose number is the
            # leading part of a cached one (128 after 1280): both share file names /
            # datasets with what is there already
            other = sorted({i for l2, v in prev_its.items() if l2 != rl for i in v if i in all_its})
            if other and rng.random() < 0.5:
                req = sorted(set(req) | set(other[:2]))
            allprev = [i for v in prev_its.values() for i in v]
            pref = [i for i in all_its if any(str(q).startswith(str(i)) and q != i for q in allprev)]
            if pref and rng.random() < 0.5:
                req = sorted(set(req) | {pref[int(rng.integers(len(pref)))]})
            rng.shuffle(req)
            want, tensor = biased_request(rng, spec, prev)
            explicit = None
            if rng.random() < 0.3:
                # explicit restart=: everything must come from that restart
                cand = [r for r, rs in enumerate(spec['restarts']) if rs['its'].get(rl)]
                explicit = cand[int(rng.integers(len(cand)))]
                pool = spec['restarts'][explicit]['its'][rl]
                req = [int(v) for v in rng.choice(pool, int(rng.integers(1, min(len(pool), 4) + 1)),
                                                  replace=False)]
            prev_its.setdefault(rl, []).extend(req)
            split = bool(rng.random() < 0.75)
            before = scan_cache(param, spec) if split else {}
            res['observations'] += 1
            # now and then the request also names a variable this simulation did
            # not output at all: the others come back as usual, with or without cache
            absent = None
            if rng.random() < 0.2:
                cand_abs = [a for e, (_, _, a) in etgen.VARS.items()
                            if e in ('trK', 'H', 'tau', 'press', 'eps') and e not in spec['vars']
                            and a not in want]
                if cand_abs:
                    absent = cand_abs[int(rng.integers(len(cand_abs)))]
                    want = list(want)
                    want.insert(int(rng.integers(len(want) + 1)), absent)    # first, last or in between
            it_arg, vars_arg, par_snap = list(req), list(want), dict(param)
            try:
                with common.Quiet():
                    data = A.read_data(param, it=it_arg, vars=vars_arg, rl=rl,
                                       restart=(-1 if explicit is None else explicit),
                                       split_per_it=split, skip_last=False,
                                       verbose=False)
            except Exception as e:
                common.add_violation(
                    res, f"read_data(split_per_it={split}) raises {type(e).__name__} in a history",
                    {"call": ci, "err": repr(e)[:300], "vars": want, "it": req, "rl": rl,
                     "layout": ltag})
                break
            if it_arg != list(req) or vars_arg != list(want) or param != par_snap:
                common.add_violation(res, "read_data modifies the caller's it / vars list or param",
                                     {"vars_before": list(want), "vars_after": vars_arg,
                                      "it_before": list(req), "it_after": it_arg, "call": ci})
                break
            its = [int(i) for i in data['it']]
            if absent is not None and any(g is not None for g in data.get(absent, [])):
                common.add_violation(res, "data returned for a variable the simulation never wrote",
                                     {"var": absent, "call": ci})
                break
            comp = []
            for w in want:
                if w == absent:
                    continue
                for cn in etgen.TENSORS.get(w, [w]):
                    if cn not in comp:
                        comp.append(cn)
            # hit/miss pattern of this call w.r.t. the cache before it
            hits = misses = 0
            for cname in comp:
                for it in req:
                    r = etgen.restart_of(spec, it, rl) if explicit is None else explicit
                    if (r, it, cname, rl) in before:
                        hits += 1
                    else:
                        misses += 1
            bad = None
            if sorted(set(its)) != sorted(set(req)) or len(its) != len(set(its)):
                bad = ("'it' column differs from the request", {"req": req, "got": its})
            else:
                tcol = list(data['t'])
                if len(tcol) != len(its) or any(
                        tcol[j] is None or float(tcol[j]) != etgen.time_of(its[j])
                        for j in range(len(its))):
                    bad = ("'t' column does not match the iterations",
                           {"it": its, "t": [None if t is None else float(t) for t in tcol]})
            if bad is None:
                for cname in comp:
                    if cname not in data or len(data[cname]) != len(its):
                        bad = ("variable column missing or of wrong length", {"var": cname})
                        break
                    for j, it in enumerate(its):
                        exp = (etgen.expected(spec, INV[cname], it, rl) if explicit is None else
                               etgen.truth(INV[cname], it, rl, spec['restarts'][explicit]['rtag'],
                                           spec['levels'][rl]['shape']))
                        g = data[cname][j]
                        res['observations'] += 1
                        if g is None or np.shape(g) != exp.shape or not np.array_equal(np.asarray(g), exp):
                            why = ('None' if g is None else 'shape' if np.shape(g) != exp.shape
                                   else c11.classify(np.asarray(g), exp, spec, INV[cname], it, rl))
                            bad = (f"cached read returns wrong data ({why})",
                                   {"var": cname, "it": it, "rl": rl, "call": ci,
                                    "split_per_it": split, "hits": hits, "misses": misses})
                            break
                    if bad:
                        break
            if bad:
                common.add_violation(res, bad[0] + f" [{'grouped' if spec['grouped'] else 'ungrouped'}]",
                                     dict(bad[1], vars=want, req=req, layout=ltag))
                break
            # what was handed out is the caller's: scribbling on it must not show in
            # any later read (nor in the cache files scanned below)
            for cname in comp:
                for g in data.get(cname, []):
                    if isinstance(g, np.ndarray) and g.flags.writeable:
                        g[...] = -777.0
            # (b) every dataset in every cache file
            cache = scan_cache(param, spec)
            for (r, it, v, crl), arr in cache.items():
                res['observations'] += 1
                if v == 't':
                    ok = float(arr) == etgen.time_of(it)
                elif v == 'it':
                    ok = int(arr) == it
                elif v in INV:
                    exp = etgen.truth(INV[v], it, crl, spec['restarts'][r]['rtag'],
                                      spec['levels'][crl]['shape'])
                    ok = arr.shape == exp.shape and np.array_equal(arr, exp)
                else:
                    ok = False
                if not ok:
                    why = 'unknown name'
                    if v in INV and arr.shape == exp.shape:
                        why = c11.classify(arr, exp, spec, INV[v], it, crl)
                    common.add_violation(
                        res, f"cache file holds wrong data for its (variable, iteration, level) ({why})",
                        {"restart": r, "it": it, "var": v, "rl": crl, "call": ci,
                         "vars": want, "req": req, "layout": ltag})
                    bad = True
                    break
            if bad:
                break
            if hits and misses:
                res['nontrivial'].append(ltag + [f"hits={min(hits, 9)}", f"misses={min(misses, 9)}",
                                                 'tensor' if tensor else 'components'])
            res['monitor']['calls'] = res['monitor'].get('calls', 0) + 1
            res['monitor']['cache_datasets_checked'] = res['monitor'].get('cache_datasets_checked', 0) + len(cache)
            if hits and misses:
                res['monitor']['partial_cache_calls'] = res['monitor'].get('partial_cache_calls', 0) + 1
    finally:
        shutil.rmtree(top, ignore_errors=True)
    return res


def coverage_check(tier, monitor_totals, results):
    if not monitor_totals.get('partial_cache_calls'):
        return ["no call ever found a partially filled cache"]
    return []
