"""C18 - simulation catalogues and name parsing are faithful and stable."""
import copy
import json
import os
import shutil
import tempfile

import numpy as np

from lib import common, etgen, harness
from props import c11

LEVEL = "exploration"
RULE = ("case kinds: (catalogue) generated simulation directory with a hostile "
        "simulation name / path (incl. the words the catalogue format itself "
        "uses: 'restart', 'rl = ', 'it', '->', 'arange', '3D variables "
        "available', brackets, commas, spaces), 1..5 restarts, uneven level "
        "strides, checkpoint files (single and per-process), then a random "
        "sequence of iterations / read_iterations / get_content calls with "
        "skip_last / overwrite options while restarts are added between calls; "
        "oracles: generator ground truth per restart, file round trip "
        "(read_iterations of the file just written == the dict returned in "
        "memory; cached content.txt == fresh scan), history independence "
        "(final result == one fresh scan of a pristine copy); (names) "
        "parse_hdf5_key / parse_h5file invert the naming scheme on every "
        "generated valid name; (par) parameters() returns the written values "
        "with the right types. non-trivial = distinct (name class, "
        "call-sequence class, #restarts, level pattern) and (name-field "
        "pattern) for the parsers")
ASSUMPTIONS = c11.ASSUMPTIONS
TIMEOUT = {"quick": 1800, "thorough": 7000}
MIN_NONTRIVIAL = {"quick": 40, "thorough": 200}

HOSTILE = ['plain', 'restart_run', 'my restart 7', 'rl = 2 test', 'it = 5', 'a->b',
           'np.arange(0, 8, 2)', '3D variables available', 'Checkpoints available at its',
           'with space', 'comma,name', "quote'name", 'bracket[0]', 'dash-name',
           'output-0003', 'x === restart 4', 'overall', 'file_3.h5',
           # the reader's own file-name vocabulary
           'bbh_from_checkpoint', 'checkpoint.chkpt', 'run.it_8.h5', 'all_iterations',
           'admbase-metric', 'x.xyz', 'rl=1 c=2']


def cases(tier, sd):
    n = 72 if tier == "quick" else 800
    out = [dict(kind='catalogue', seed=30000 * sd + i) for i in range(n)]
    out += [dict(kind='names', seed=30000 * sd + i) for i in range(4 if tier == "quick" else 20)]
    out += [dict(kind='par', seed=30000 * sd + i) for i in range(4 if tier == "quick" else 20)]
    return out


# --------------------------------------------------------------------------
def truth_restart(spec, r):
    """Expected catalogue entry of restart r."""
    from aurel import reading
    rs = spec['restarts'][r]
    out = {}
    out['var available'] = sorted(reading.transform_vars_ET_to_aurel_groups(
        list(rs.get('vars', spec['vars']))))
    allits = sorted({i for its in rs['its'].values() for i in its})
    if not allits:          # only checkpoints were written: they are what can be read
        ck = sorted(rs.get('checkpoints', []))
        return {'checkpoints': ck, 'its available': [ck[0], ck[-1]]} if ck else {}
    out['its available'] = [min(allits), max(allits)]
    for rl, its in rs['its'].items():
        its = sorted(its)
        if len(its) > 1:
            out[f'rl = {rl}'] = [its[0], its[-1], its[1] - its[0]]
        else:
            out[f'rl = {rl}'] = [its[0]]
    out['checkpoints'] = sorted(rs.get('checkpoints', []))
    return out


def norm_entry(e):
    """Normalise a catalogue entry for comparison by value."""
    out = {}
    for k, v in e.items():
        if k == 'var available':
            out[k] = sorted(v)          # (order is not part of the contract, duplicates are)
        elif k == 'it to do':
            continue
        else:
            out[k] = [int(x) for x in np.asarray(v).ravel()]
    return out


def norm_cat(cat):
    return {k: norm_entry(v) for k, v in cat.items() if k != 'overall'}


def norm_overall(cat):
    o = cat.get('overall', {})
    return {k: [[int(x) for x in seg] for seg in v] for k, v in o.items()}


def norm_content(c):
    return {tuple(k): sorted(os.path.basename(f) for f in v) for k, v in c.items()}


def truth_content(spec, r):
    groups = {}
    if not any(spec['restarts'][r]['its'].values()):
        return {}            # no 3D output files in this restart
    nb = len(spec['levels'][min(spec['levels'])]['boxes'])
    for v in spec['restarts'][r].get('vars', spec['vars']):
        base = etgen.file_base(v, spec['grouped'], spec.get('custom_group'))
        xyz = '.xyz' if spec.get('xyz') else ''
        if spec['layout'] == 'proc':
            files = tuple(sorted(f'{base}{xyz}.file_{c}.h5' for c in range(nb)))
        else:
            files = (f'{base}{xyz}.h5',)
        groups.setdefault(files, []).append(v)
    return {tuple(sorted(vs)): sorted(fs) for fs, vs in groups.items()}


def gen_cat_spec(seed):
    rng = np.random.default_rng([int(seed), 18])
    spec = c11.gen_spec(seed, 'quick')
    nres = int(rng.integers(1, 6))
    base = spec['restarts'][0]
    nlev = len(spec['levels'])
    strides = {rl: 2 ** (nlev - 1 - rl) * int(rng.choice([1, 2, 4])) for rl in range(nlev)}
    restarts = []
    start = 0
    vary = bool(rng.random() < 0.5)
    grow = bool(spec.get('custom_group')) or bool(rng.random() < 0.3)
    if grow and spec['grouped']:
        # an unknown group whose variable list is extended at a later restart
        spec['custom_group'] = ('mythorn-mygroup', ['alp', 'tau'])
        spec['vars'] = [v for v in spec['vars'] if v not in ('alp', 'tau')] + ['alp', 'tau']
    change_once = bool(rng.random() < 0.35)
    if change_once:
        # out_every changed once (at restart 1) and then stayed: 2, 4, 4, ...
        nres = max(nres, int(rng.integers(3, 6)))
        vary = False
    cap_next = None
    # one case in six is directed: restart 1 recovers from an earlier checkpoint of
    # restart 0 and is killed before restart 0's last output, same out_every
    directed = int(seed) % 6 == 4 and not change_once
    if directed:
        nres = max(nres, 2)
        vary = False
    for r in range(nres):
        length = int(rng.integers(1 if change_once else 0, 4))
        if cap_next is not None and (rng.random() < 0.6 or (directed and r == 1)):
            length = min(length, cap_next)        # ... and stops before the earlier one did
        cap_next = None
        if directed and r == 0:
            length = 3
        bs = 2 ** (nlev - 1) * 4
        if change_once and r == 1:
            strides = {rl: (2 * v if 2 * v <= bs else v // 2 or 1) for rl, v in strides.items()}
        if vary and r and rng.random() < 0.5:
            # out_every changed in the parameter file of this restart
            strides = {rl: 2 ** (nlev - 1 - rl) * int(rng.choice([1, 2, 4])) for rl in range(nlev)}
        # the run may stop anywhere (coarse levels then end earlier than the
        # restart's last iteration) and the finest level may appear late (regrid)
        tail = int(rng.integers(0, bs)) if (length and rng.random() < 0.5) else 0
        its = {rl: list(range(start, start + length * bs + tail + 1, strides[rl])) for rl in range(nlev)}
        if nlev >= 2 and length and rng.random() < 0.25:
            k = int(rng.integers(1, max(2, len(its[nlev - 1]) - 1)))
            its[nlev - 1] = its[nlev - 1][k:] or its[nlev - 1][-1:]
        if r and nres > 2 and rng.random() < 0.12 and not (directed and r == 1):
            # a restart that wrote checkpoints but no 3D output at all
            its = {rl: [] for rl in range(nlev)}
        rs = dict(its=its, rtag=r + 1)
        if grow and spec['grouped'] and r < nres // 2:
            rs['vars'] = [v for v in spec['vars'] if v != 'tau']
        dead = bool(not its[nlev - 1] and rng.random() < 0.4)   # the job died at start-up: nothing written
        if (rng.random() < 0.6 or not its[nlev - 1]) and not dead:
            pool = list(range(start, start + length * bs + 1, bs))
            rs['checkpoints'] = sorted({int(v) for v in rng.choice(pool, int(rng.integers(1, 3)))})
            rs['chk_proc'] = bool(rng.random() < 0.4)
        restarts.append(rs)
        if length == 0 and rng.random() < 0.5:
            pass        # died right after its first output: the next one starts from the same point
        elif length >= 2 and (rng.random() < 0.4 or (directed and r == 0)):
            # the next restart recovers from an earlier checkpoint of this one
            # (and may well stop before this one did)
            k_ = 1 if (directed and r == 0) else int(rng.integers(1, length))
            start += k_ * bs
            cap_next = max(length - k_ - 1, 1)
        else:
            start += max(length, 1) * bs
    spec['restarts'] = restarts
    if nlev >= 2 and rng.random() < 0.3:
        # 3D output restricted to the finer levels: no rl = 0 anywhere
        del spec['levels'][0]
        for rs in restarts:
            rs['its'].pop(0, None)
    spec['active_link'] = bool(rng.random() < 0.4)
    name = HOSTILE[int(seed) % len(HOSTILE)]          # every name gets its turn
    spec['simname'] = name
    spec['name_class'] = name
    spec['dir_class'] = HOSTILE[(int(seed) // 3) % len(HOSTILE)] if rng.random() < 0.5 else 'plain'
    return spec


def run_catalogue(spec0, res):
    A = harness.aurel()
    from aurel import reading
    rng = np.random.default_rng([int(spec0['seed']), 181])
    spec = gen_cat_spec(spec0['seed'])
    os.makedirs(common.WORK, exist_ok=True)
    top = tempfile.mkdtemp(dir=common.WORK, prefix="c18_")
    root = os.path.join(top, spec['dir_class'].replace('/', '_'))
    os.makedirs(root)
    nres = len(spec['restarts'])
    tags = [spec['name_class'], spec['dir_class'], f"restarts={nres}",
            f"levels={len(spec['levels'])}"]
    seq = []
    try:
        # restarts appear over time: start with a prefix of them
        shown = int(rng.integers(1, nres + 1))
        full = copy.deepcopy(spec)

        archived = set()

        def write(nshow):
            s = copy.deepcopy(full)
            s['restarts'] = full['restarts'][:nshow]
            keep = {}
            simdir = os.path.join(root, s['simname'])
            # keep catalogue files across re-generation of the data tree
            for dirpath, _, files in os.walk(simdir) if os.path.isdir(simdir) else []:
                for fn in files:
                    if fn in ('iterations.txt', 'content.txt'):
                        with open(os.path.join(dirpath, fn)) as f:
                            keep[os.path.relpath(os.path.join(dirpath, fn), simdir)] = f.read()
            param = etgen.make_sim(root, s)
            for k in archived:          # moved to tape by the user
                shutil.rmtree(os.path.join(simdir, f'output-{k:04d}'), ignore_errors=True)
            if spec.get('active_link'):
                # SimFactory keeps a link to the running restart
                last = f'output-{nshow - 1:04d}'
                os.symlink(last, os.path.join(simdir, last + '-active'))
            for rel, txt in keep.items():
                if os.path.isdir(os.path.dirname(os.path.join(simdir, rel))):
                    with open(os.path.join(simdir, rel), 'w') as f:
                        f.write(txt)
            return param
        param = write(shown)
        last = None
        catalogued = set()
        for step in range(int(rng.integers(2, 7))):
            op = str(rng.choice(['iterations', 'read_iterations', 'get_content', 'add_restart',
                                 'iterations', 'archive_restart']))
            skip_last = bool(rng.random() < 0.4)
            if op == 'archive_restart':
                # an old restart that is already in the catalogue is moved away;
                # what was catalogued stays, newer restarts are still picked up
                cand = sorted(k for k in catalogued if k not in archived and k < shown - 1)
                if cand and not spec.get('active_link'):
                    archived.add(cand[0])
                    param = write(shown)
                    seq.append(f'archive_restart({cand[0]})')
                continue
            if op == 'add_restart':
                if shown < nres:
                    shown += 1
                    param = write(shown)
                    seq.append('add_restart')
                continue
            seq.append(f"{op}(skip_last={skip_last})" if op != 'get_content' else op)
            res['observations'] += 1
            had_file = os.path.exists(os.path.join(param['simpath'], param['simname'],
                                                   'iterations.txt'))
            try:
                with common.Quiet():
                    if op == 'iterations':
                        last = reading.iterations(param, skip_last=skip_last, verbose=False)
                    elif op == 'read_iterations':
                        last = reading.read_iterations(param, skip_last=skip_last, verbose=False)
                    else:
                        r = int(rng.choice([k for k in range(shown) if k not in archived]))
                        ow = bool(rng.random() < 0.3)
                        c1 = reading.get_content(param, restart=r, overwrite=ow, verbose=False)
                        c2 = reading.get_content(param, restart=r, verbose=False)   # cached
                        c3 = reading.get_content(param, restart=r, overwrite=True, verbose=False)
            except ImportError:
                continue          # documented: nothing to process
            except Exception as e:
                common.add_violation(
                    res, f"{op} raises {type(e).__name__} [name class: {classify_name(spec)}]",
                    {"err": repr(e)[:300], "sequence": seq, "simname": spec['simname'],
                     "dir": spec['dir_class']})
                return
            if op == 'get_content':
                want = truth_content(spec, r)
                for lab, c in (('first', c1), ('cached', c2), ('fresh', c3)):
                    if norm_content(c) != want:
                        common.add_violation(res, f"get_content ({lab}) differs from the files on disk",
                                             {"got": str(norm_content(c))[:300], "want": str(want)[:300]})
                        return
                res['nontrivial'].append(['get_content'] + tags[:2] + [spec['layout'], spec['grouped']])
                continue
            # ---- which restarts may appear: everything catalogued before plus the
            # completed ones (all but the last when skip_last=True)
            allowed = catalogued | (set(range(shown if not skip_last else shown - 1)) - archived)
            if op == 'read_iterations' and had_file:
                allowed = set(catalogued)       # only re-reads the existing catalogue
            empty = {r for r in range(nres)
                     if not spec['restarts'][r]['its'].get(min(spec['levels']))}
            have = {int(r) for r in last if r != 'overall'}
            if have - empty != allowed - empty:
                common.add_violation(res, f"{op}: wrong set of restarts catalogued"
                                          f" (skip_last={skip_last})",
                                     {"catalogued": sorted(have), "expected": sorted(allowed),
                                      "sequence": seq, "active_link": spec.get('active_link')})
                return
            catalogued = set(have)
            # ---- catalogue vs truth and vs its own file
            got = norm_cat(last)
            for r, entry in got.items():
                want = truth_restart(spec, int(r))
                if not any(spec['restarts'][int(r)]['its'].values()):
                    # nothing but (possibly) checkpoints may be reported
                    entry = {k: v for k, v in entry.items() if v not in ([], set(), None)}
                    want = {k: v for k, v in want.items() if v}
                elif not spec['restarts'][int(r)]['its'].get(min(spec['levels'])):
                    continue
                if entry != want:
                    dk = [k for k in set(entry) | set(want) if entry.get(k) != want.get(k)]
                    common.add_violation(
                        res, f"{op}: catalogue entry differs from what is on disk ({sorted(dk)[0].split(' =')[0]})",
                        {"restart": r, "got": str(entry)[:400], "want": str(want)[:400],
                         "sequence": seq, "simname": spec['simname']})
                    return
            try:
                with common.Quiet():
                    back = reading.read_iterations(param, skip_last=skip_last, verbose=False)
            except Exception as e:
                common.add_violation(res, f"read_iterations raises {type(e).__name__} on the file just written "
                                          f"[name class: {classify_name(spec)}]",
                                     {"err": repr(e)[:300], "simname": spec['simname'], "dir": spec['dir_class']})
                return
            if norm_cat(back) != got:
                common.add_violation(res, f"iterations.txt does not parse back to the returned dict "
                                          f"[name class: {classify_name(spec)}]",
                                     {"memory": str(got)[:400], "file": str(norm_cat(back))[:400],
                                      "simname": spec['simname'], "dir": spec['dir_class']})
                return
        # ---- history independence: final incremental result == one fresh scan
        try:
            with common.Quiet():
                final = reading.iterations(param, skip_last=False, verbose=False)
            top2 = tempfile.mkdtemp(dir=common.WORK, prefix="c18f_")
            root2 = os.path.join(top2, spec['dir_class'].replace('/', '_'))
            os.makedirs(root2)
            s = copy.deepcopy(full)
            s['restarts'] = full['restarts'][:shown]
            param2 = etgen.make_sim(root2, s)
            with common.Quiet():
                fresh = reading.iterations(param2, skip_last=False, verbose=False)
            shutil.rmtree(top2, ignore_errors=True)
        except ImportError:
            return
        except Exception as e:
            common.add_violation(res, f"iterations raises {type(e).__name__} [name class: {classify_name(spec)}]",
                                 {"err": repr(e)[:300], "sequence": seq, "simname": spec['simname'],
                                  "dir": spec['dir_class']})
            return
        res['observations'] += 2
        if not check_overall(res, final, spec, shown, seq):
            return
        if not archived and (norm_cat(final) != norm_cat(fresh) or norm_overall(final) != norm_overall(fresh)):
            common.add_violation(res, "incremental catalogue differs from one fresh scan",
                                 {"sequence": seq, "incremental": str(norm_cat(final))[:500],
                                  "fresh": str(norm_cat(fresh))[:500],
                                  "overall_inc": str(norm_overall(final))[:300],
                                  "overall_fresh": str(norm_overall(fresh))[:300]})
            return
        seq_cls = ('incremental' if 'add_restart' in seq else 'static') + \
                  ('+skip_last' if any('skip_last=True' in s for s in seq) else '')
        res['nontrivial'].append(tags + [seq_cls])
    finally:
        shutil.rmtree(top, ignore_errors=True)


def check_overall(res, cat, spec, nshow, seq):
    """'overall' must describe, level by level, exactly the union of the
    iterations of the catalogued restarts (segments are inclusive ranges)."""
    ov = norm_overall(cat)
    done = [r for r in cat if r != 'overall']
    levels = sorted({rl for r in done for rl in spec['restarts'][int(r)]['its']
                     if spec['restarts'][int(r)]['its'][rl]})
    for rl in levels:
        want = set()
        for r in done:
            want |= set(spec['restarts'][int(r)]['its'].get(rl, []))
        key = f'rl = {rl}'
        if key not in ov:
            common.add_violation(res, "overall summary misses a refinement level",
                                 {"level": rl, "overall": str(ov)[:300], "sequence": seq})
            return False
        got = set()
        for seg in ov[key]:
            got |= set(range(seg[0], seg[1] + 1, seg[2])) if len(seg) == 3 else {seg[0]}
        if not want <= got:
            common.add_violation(res, "overall summary does not cover the iterations on disk",
                                 {"level": rl, "segments": ov[key], "missing": sorted(want - got)[:5],
                                  "sequence": seq})
            return False
        if not got <= want:
            common.add_violation(res, "overall summary lists iterations that are not on disk",
                                 {"level": rl, "segments": ov[key], "extra": sorted(got - want)[:5],
                                  "sequence": seq})
            return False
    return True


def classify_name(spec):
    words = ['restart', 'rl = ', '->', 'arange', '3D variables', 'Checkpoints', ' ', ',', "'", '[']
    hit = [w for w in words if w in spec['simname'] or w in spec['dir_class']]
    return hit[0] if hit else 'plain'


# --------------------------------------------------------------------------
def run_names(spec, res):
    from aurel import reading
    rng = np.random.default_rng([int(spec['seed']), 182])
    thorns = ['ADMBASE', 'HYDROBASE', 'ML_BSSN', 'admbase', 'My_Thorn2', 'WEYLSCAL4']
    vars_ = ['gxx', 'alp', 'vel[0]', 'rho', 'Psi4r', 'w_lorentz', 'H', 'M3', 'dtbetax', 'var_2[11]']
    for _ in range(200):
        th, v = thorns[int(rng.integers(len(thorns)))], vars_[int(rng.integers(len(vars_)))]
        it, tl = int(rng.integers(0, 10 ** int(rng.integers(1, 8)))), int(rng.integers(0, 3))
        m0 = bool(rng.random() < 0.5)
        rl = int(rng.integers(0, 12)) if rng.random() < 0.8 else None
        c = int(rng.integers(0, 500)) if rng.random() < 0.6 else None
        key = f"{th}::{v} it={it} tl={tl}" + (" m=0" if m0 else "") + \
              (f" rl={rl}" if rl is not None else "") + (f" c={c}" if c is not None else "")
        res['observations'] += 1
        got = reading.parse_hdf5_key(key)
        want = {'thorn': th, 'variable': v, 'it': it, 'tl': tl, 'm': 0 if m0 else None,
                'rl': rl, 'c': c, 'combined variable name': f"{th}::{v}"}
        if got != want:
            field = next((k for k in want if not got or got.get(k) != want[k]), '?')
            common.add_violation(res, f"parse_hdf5_key wrong field '{field}'", {"key": key, "got": got})
        else:
            res['nontrivial'].append(['key', m0, rl is not None, c is not None, '[' in v])
    for bad in ['Parameters and Global Attributes', 'gxx it=3', 'ADMBASE:gxx it=0 tl=0']:
        res['observations'] += 1
        if reading.parse_hdf5_key(bad) is not None:
            common.add_violation(res, "parse_hdf5_key accepts an invalid key", {"key": bad})
    groups = [None, 'admbase', 'hydrobase', 'ml_bssn', 'my_thorn2']
    names = ['metric', 'rho', 'vel[0]', 'ml_ham', 'w_lorentz', 'psi4r_group', 'x2']
    dirs = ['', 'rel/dir/', '/abs/with space/restart 3/', '/a.b/c-d/file_7/']
    for _ in range(200):
        g, nm = groups[int(rng.integers(len(groups)))], names[int(rng.integers(len(names)))]
        pre, suf = bool(rng.random() < 0.3), bool(rng.random() < 0.2)
        ch = int(rng.integers(0, 3000)) if rng.random() < 0.6 else None
        fn = (f"{g}-" if g else "") + nm + (".xyz" if pre else "") + \
             (f".file_{ch}" if ch is not None else "") + (".xyz" if suf else "") + ".h5"
        path = dirs[int(rng.integers(len(dirs)))] + fn
        res['observations'] += 1
        got = reading.parse_h5file(path)
        want = {'thorn_with_dash': f"{g}-" if g else None, 'thorn': g,
                'variable_or_group': nm, 'base_name': f"{g}-{nm}" if g else None,
                'xyz_prefix': '.xyz' if pre else None, 'chunk_number': ch,
                'xyz_suffix': '.xyz' if suf else None, 'group_file': g is not None}
        if pre and ch is None and suf:
            continue          # '.xyz.xyz.h5' is not a name Carpet writes
        if ch is None and suf and not pre:
            want['xyz_prefix'], want['xyz_suffix'] = '.xyz', None   # same text, either slot
        if got != want:
            field = next((k for k in want if not got or got.get(k) != want[k]), '?')
            common.add_violation(res, f"parse_h5file wrong field '{field}'", {"path": path, "got": got, "want": want})
        else:
            res['nontrivial'].append(['file', g is not None, pre, ch is not None, suf, '/' in path])
    for _ in range(60):
        it = int(rng.integers(0, 10 ** 7))
        ch = int(rng.integers(0, 200)) if rng.random() < 0.5 else None
        fn = f"checkpoint.chkpt.it_{it}" + (f".file_{ch}" if ch is not None else "") + ".h5"
        path = dirs[int(rng.integers(len(dirs)))] + fn
        res['observations'] += 1
        got = reading.parse_h5file(path)
        if got != {'iteration': it, 'chunk_number': ch}:
            common.add_violation(res, "parse_h5file wrong checkpoint fields", {"path": path, "got": got})
        else:
            res['nontrivial'].append(['checkpoint', ch is not None])


def run_par(spec, res):
    from aurel import reading
    rng = np.random.default_rng([int(spec['seed']), 183])
    os.makedirs(common.WORK, exist_ok=True)
    top = tempfile.mkdtemp(dir=common.WORK, prefix="c18p_")
    try:
        simname = ['mysim', 'restart_sim', 'sim with space'][int(rng.integers(3))]
        dx = float(rng.choice([0.5, 0.25, 1.0]))
        n = int(rng.integers(4, 20))
        vals = {
            ('CoordBase', 'xmin'): -dx * n, ('CoordBase', 'xmax'): dx * n,
            ('CoordBase', 'ymin'): -dx * n, ('CoordBase', 'ymax'): dx * n,
            ('CoordBase', 'zmin'): -dx * n, ('CoordBase', 'zmax'): dx * n,
            ('CoordBase', 'dx'): dx, ('CoordBase', 'dy'): dx, ('CoordBase', 'dz'): dx,
            ('Cactus', 'cctk_itlast'): int(rng.integers(1, 10 ** 6)),
            ('Time', 'dtfac'): float(rng.choice([0.25, 1e-3, 2.5e-2])),
            ('Carpet', 'max_refinement_levels'): int(rng.integers(1, 5)),
            ('IOHDF5', 'out_every'): int(rng.integers(1, 512)),
            ('IOScalar', 'out_every'): int(rng.integers(1, 512)),
            ('ADMBase', 'initial_data'): "ICPertFLRW",
            ('HydroBase', 'evolution_method'): "GRHydro",
            ('ADMBase', 'evolution_method'): "ML_BSSN",
            ('IO', 'out_dir'): "$parfile",
            ('MyThorn', 'neg_float'): -1.5e-3, ('MyThorn', 'neg_int'): -7,
            ('MyThorn', 'expr_string'): "a=b::c",
            ('MyThorn', 'yesno'): "yes",
        }
        lines = ['# a comment', 'ActiveThorns = "CoordBase Carpet ADMBase"', '']
        for (th, k), v in vals.items():
            if isinstance(v, str):
                lines.append(f'{th}::{k} = "{v}"  # trailing comment')
            else:
                lines.append(f'{th}::{k}   =   {v!r}')
        d = os.path.join(top, simname, 'output-0000')
        os.makedirs(os.path.join(d, simname))
        with open(os.path.join(d, simname + '.par'), 'w') as f:
            f.write('\n'.join(lines) + '\n')
        old = os.environ.get('SIMLOC')
        os.environ['SIMLOC'] = top + '/'
        try:
            with common.Quiet():
                P = reading.parameters(simname)
        except Exception as e:
            common.add_violation(res, f"parameters() raises {type(e).__name__}", {"err": repr(e)[:300]})
            return
        finally:
            if old is None:
                os.environ.pop('SIMLOC', None)
            else:
                os.environ['SIMLOC'] = old
        dup = {'out_every', 'evolution_method'}
        for (th, k), v in vals.items():
            res['observations'] += 1
            key = f"{th}::{k}" if k in dup else k
            if k in ('xmin', 'ymin', 'zmin'):
                continue            # shifted by the reader to the first interior point
            if key not in P:
                common.add_violation(res, "parameters() loses a parameter", {"key": key})
            elif type(P[key]) is not type(v) or P[key] != v:
                common.add_violation(res, f"parameters() wrong value/type for a {type(v).__name__}",
                                     {"key": key, "got": repr(P[key]), "want": repr(v)})
            else:
                res['nontrivial'].append(['par', type(v).__name__, k if isinstance(v, str) else ''])
        for k in ('simname', 'simulation', 'simpath'):
            res['observations'] += 1
            want = {'simname': simname, 'simulation': 'ET', 'simpath': top + '/'}[k]
            if P.get(k) != want:
                common.add_violation(res, f"parameters() wrong {k}", {"got": P.get(k)})
    finally:
        shutil.rmtree(top, ignore_errors=True)


def run_case(spec):
    res = common.new_result(spec)
    {'catalogue': run_catalogue, 'names': run_names, 'par': run_par}[spec['kind']](spec, res)
    return res
