"""C11 - Einstein Toolkit output is read back exactly for any layout."""
import os
import shutil
import tempfile

import numpy as np

from lib import common, etgen, harness

LEVEL = "exploration"
RULE = ("case = generated simulation directory: non-cubic interior shape per "
        "level, ghost widths 0..3 per axis, rectilinear product decomposition "
        "with 1..27+ chunks and uneven cuts on any axes (2- and 3-chunk cuts "
        "along x, y and z included) or a recursive-bisection (non-product) "
        "decomposition, permuted chunk numbering, 4 layouts {one file, file per "
        "process} x {file per variable, file per group (known / unknown "
        "group)}, 1..4 restarts with overlapping iteration ranges carrying "
        "restart-specific data, levels 0..2 with their own shapes and strides, "
        "requested (vars, it) subsets incl. tensor names, unsorted and "
        "duplicated it. Every array returned by read_data(split_per_it=False) "
        "and by join_chunks/fixij on the raw chunk dicts is compared BITWISE "
        "with the closed-form truth; for product decompositions the read must "
        "succeed, otherwise it may raise but never return wrong data. "
        "non-trivial = distinct (layout, chunks per axis, permuted?, ghost "
        "class, #restarts, rl, tensor request?)")
ASSUMPTIONS = ["generator mirrors the Carpet HDF5 conventions of tests/fixtures (key names, (z,y,x) storage, ghost zones on all sides, iorigin = interior offset)"]
TIMEOUT = {"quick": 1800, "thorough": 7000}
MIN_NONTRIVIAL = {"quick": 60, "thorough": 400}

VARSETS = [['alp'], ['rho'], ['alp', 'betax', 'betay', 'betaz'],
           ['gxx', 'gxy', 'gxz', 'gyy', 'gyz', 'gzz', 'alp'],
           ['kxx', 'kxy', 'kxz', 'kyy', 'kyz', 'kzz', 'rho'],
           ['vel[0]', 'vel[1]', 'vel[2]', 'rho', 'eps'], ['trK', 'H'],
           ['tau', 'alp'], ['M1', 'M2', 'M3'], ['Psi4r', 'Psi4i'], ['Psi4r', 'Psi4i', 'alp'],
           ['dtalp', 'alp', 'dtbetax', 'dtbetay', 'dtbetaz']]


def random_cuts(rng, n, k):
    if k <= 0 or n < 2:
        return []
    k = min(k, n - 1)
    return sorted(int(v) for v in rng.choice(np.arange(1, n), k, replace=False))


def same_count_boxes(rng, shape, n):
    facs = [(a, b, c) for a in range(1, n + 1) for b in range(1, n + 1)
            for c in range(1, n + 1) if a * b * c == n
            and a <= shape[0] and b <= shape[1] and c <= shape[2]]
    if facs:
        a, b, c = facs[int(rng.integers(len(facs)))]
        cuts = [random_cuts(rng, shape[0], a - 1), random_cuts(rng, shape[1], b - 1),
                random_cuts(rng, shape[2], c - 1)]
        return etgen.product_boxes(shape, cuts)
    return etgen.bisect_boxes(rng, shape, n)


def gen_spec(seed, tier):
    rng = np.random.default_rng([int(seed), 11])
    vars_ = list(VARSETS[int(rng.integers(len(VARSETS)))])
    nlev = int(rng.choice([1, 1, 2, 3]))
    layout = str(rng.choice(['onefile', 'proc']))
    chk_proc_run = bool(rng.random() < 0.5)     # checkpoints written per process
    levels = {}
    for rl in range(nlev):
        shape = [int(v) for v in rng.integers(3, 10, 3)]
        ghost = [int(v) for v in rng.choice([0, 1, 2, 3], 3, p=[.15, .25, .25, .35])]
        if rng.random() < 0.5:
            ghost = [int(rng.choice([1, 2, 3]))] * 3
        mode = rng.choice(['single', 'two', 'three', 'product', 'bisect'],
                          p=[.12, .2, .13, .4, .15])
        if mode == 'single':
            boxes = etgen.product_boxes(shape, [[], [], []])
        elif mode in ('two', 'three'):
            a = int(rng.integers(3))
            cuts = [[], [], []]
            cuts[a] = random_cuts(rng, shape[a], 1 if mode == 'two' else 2)
            boxes = etgen.product_boxes(shape, cuts)
        elif mode == 'product':
            cuts = [random_cuts(rng, shape[a], int(rng.integers(0, 4))) for a in range(3)]
            boxes = etgen.product_boxes(shape, cuts)
        else:
            boxes = etgen.bisect_boxes(rng, shape, int(rng.integers(2, 9)))
        if rl == 0 and len(boxes) == 1:
            layout = 'onefile'   # a single process writes <var>.h5 without c=
        if rl > 0 and (layout == 'proc' or chk_proc_run or rng.random() < 0.5):
            # file per process: every process writes a piece of every level
            # (as in real Carpet output): same number of chunks on all levels
            boxes = same_count_boxes(rng, shape, len(levels[0]['boxes']))
        perm = list(range(len(boxes)))
        if rng.random() < 0.5:
            perm = [int(v) for v in rng.permutation(len(boxes))]
        levels[rl] = dict(shape=shape, ghost=ghost, boxes=boxes, perm=perm)
    nres = int(rng.choice([1, 2, 3, 4]))
    restarts = []
    start = 0
    # output strides are a property of the run, the same in every restart
    strides = {rl: 2 ** (nlev - 1 - rl) * int(rng.choice([1, 2, 4])) for rl in range(nlev)}
    # realistic iteration numbers: outputs every 1, 10, 100, 128 ... steps
    itscale = int(rng.choice([1, 1, 10, 100, 128, 1024]))
    for r in range(nres):
        its = {}
        length = int(rng.integers(1, 5))
        for rl in range(nlev):
            stride = strides[rl]
            base_stride = 2 ** (nlev - 1) * 4
            its[rl] = [itscale * i for i in
                       range(start, start + length * base_stride + 1, stride)]
        rs = dict(its=its, rtag=r + 1)
        if rng.random() < 0.5:
            # checkpoints with real data (two time levels) at output iterations
            pool = its[0]
            rs['checkpoints'] = sorted({int(v) for v in rng.choice(pool, int(rng.integers(1, 3)))})
            rs['chk_proc'] = chk_proc_run
        restarts.append(rs)
        back = int(rng.integers(0, length + 1))          # overlap with the next restart
        start = start + (length - back) * (2 ** (nlev - 1) * 4)
    grouped = bool(rng.random() < 0.5)
    custom = None
    if grouped and rng.random() < 0.3 and 'alp' in vars_:
        custom = ('mythorn-mygroup', ['alp'])
    if layout == 'onefile' and rng.random() < 0.3:
        # in a one-file layout the number of components of a level may change
        # from one iteration to the next (regridding)
        rl = int(rng.integers(nlev))
        lev = levels[rl]
        allit = sorted({i for rs in restarts for i in rs['its'].get(rl, [])})
        if len(allit) > 1 and len(lev['boxes']) > 1:
            one = bool(rng.random() < 0.35)       # regridded to a single component
            cuts = [random_cuts(rng, lev['shape'][a], 0 if one else int(rng.integers(0, 3))) for a in range(3)]
            late = etgen.product_boxes(lev['shape'], cuts)
            if len(late) >= 1:        # (a single component carries no ' c=' in its keys)
                lev['boxes_late'] = late
                lev['late_from'] = allit[int(rng.integers(1, len(allit)))]
    return dict(simname=f'sim{seed}', vars=vars_, levels=levels, restarts=restarts,
                layout=layout, grouped=grouped,
                m0=bool(rng.random() < 0.3), xyz=bool(rng.random() < 0.3),
                custom_group=custom, par=None, chk_data=True)


def cases(tier, sd):
    n = 64 if tier == "quick" else 1200
    return [dict(seed=10000 * sd + i) for i in range(n)]


def tagset(spec, rl):
    lev = spec['levels'][rl]
    b = lev['boxes']
    per_axis = tuple(len({bb[a] for bb in b}) for a in range(3))
    g = lev['ghost']
    return [spec['layout'], 'grouped' if spec['grouped'] else 'ungrouped',
            'custom' if spec.get('custom_group') else 'known', str(per_axis),
            'permuted' if lev['perm'] != list(range(len(b))) else 'natural',
            'ghost0' if 0 in g else ('ghost-uniform' if len(set(g)) == 1 else 'ghost-mixed'),
            'product' if etgen.is_product(b) else 'bisect',
            f"restarts={len(spec['restarts'])}", f"rl={rl}"]


def aurel_request(rng, spec):
    """Aurel-side names for a random subset of the stored variables."""
    avail = [etgen.aurel_name(v) for v in spec['vars']]
    want = list(avail)
    if rng.random() < 0.5 and len(want) > 1:
        want = [want[i] for i in sorted(rng.choice(len(want), int(rng.integers(1, len(want) + 1)), replace=False))]
    tensor = False
    for tname, comps in etgen.TENSORS.items():
        if all(c in want for c in comps) and rng.random() < 0.6:
            want = [w for w in want if w not in comps] + [tname]
            tensor = True
    return want, tensor


def check_read(res, A, param, spec, rng):
    for rl in spec['levels']:
        all_its = sorted({i for rs in spec['restarts'] for i in rs['its'].get(rl, [])})
        k = int(rng.integers(1, min(len(all_its), 5) + 1))
        req = [int(v) for v in rng.choice(all_its, k, replace=False)]
        if rng.random() < 0.4:
            req = req + [req[0]]                     # duplicated
        rng.shuffle(req)                             # unsorted
        want, tensor = aurel_request(rng, spec)
        tags = tagset(spec, rl) + ['tensor' if tensor else 'components']
        product = etgen.is_product(spec['levels'][rl]['boxes'])
        if spec['layout'] == 'proc' and len({len(l['boxes']) for l in spec['levels'].values()}) > 1:
            # a level with fewer components than there are process files: the
            # reader may refuse such a directory (it must still not misplace data)
            product = False
        res['observations'] += 1
        it_arg, vars_arg, par_snap = list(req), list(want), dict(param)
        try:
            with common.Quiet():
                data = A.read_data(param, it=it_arg, vars=vars_arg, rl=rl,
                                   restart=-1, split_per_it=False, skip_last=False,
                                   verbose=False)
        except Exception as e_:
            data, e = None, e_
        if it_arg != list(req) or vars_arg != list(want) or param != par_snap:
            common.add_violation(res, "read_data modifies the caller's it / vars list or param",
                                 {"vars_before": list(want), "vars_after": vars_arg,
                                  "it_before": list(req), "it_after": it_arg, "tags": tags})
            param.clear()
            param.update(par_snap)
            continue
        if data is None:
            if product:
                lev = spec['levels'][rl]
                common.add_violation(
                    res, f"read_data raises {type(e).__name__} on a rectilinear layout "
                         f"[chunks/axis={tags[3]}, {tags[5]}]",
                    {"tags": tags, "err": repr(e)[:300], "shape": lev['shape'],
                     "ghost": lev['ghost'], "boxes": lev['boxes'], "perm": lev['perm']})
            else:
                res['monitor']['raised_on_non_product'] = res['monitor'].get('raised_on_non_product', 0) + 1
            continue
        # iterations and times
        its = [int(i) for i in data['it']]
        if its != sorted(set(req)):
            common.add_violation(res, "returned 'it' column differs from the request",
                                 {"requested": req, "returned": its, "tags": tags})
            continue
        if [float(t) for t in data['t']] != [etgen.time_of(i) for i in its]:
            common.add_violation(res, "returned 't' column does not match the iterations",
                                 {"it": its, "t": [float(t) for t in data['t']], "tags": tags})
            continue
        comp_names = []
        for w in want:
            comp_names += etgen.TENSORS.get(w, [w])
        inv = {etgen.aurel_name(v): v for v in spec['vars']}
        ok = True
        for cname in comp_names:
            if cname not in data:
                common.add_violation(res, "requested variable missing from the result",
                                     {"var": cname, "keys": list(data.keys()), "tags": tags})
                ok = False
                continue
            col = data[cname]
            if len(col) != len(its):
                common.add_violation(res, "column length differs from 'it'",
                                     {"var": cname, "tags": tags})
                ok = False
                continue
            for j, it in enumerate(its):
                exp = etgen.expected(spec, inv[cname], it, rl)
                got = np.asarray(col[j])
                res['observations'] += 1
                if got.shape != exp.shape or not np.array_equal(got, exp):
                    lev = spec['levels'][rl]
                    why = ("shape" if got.shape != exp.shape else classify(got, exp, spec, inv[cname], it, rl))
                    common.add_violation(
                        res, f"wrong data returned ({why}) [{tags[6]}, chunks/axis={tags[3]}, {tags[4]}, {tags[5]}]",
                        {"var": cname, "it": it, "rl": rl, "got_shape": got.shape,
                         "want_shape": exp.shape, "tags": tags, "boxes": lev['boxes'],
                         "perm": lev['perm'], "ghost": lev['ghost'],
                         "restarts": [r['its'] for r in spec['restarts']]})
                    ok = False
                    break
        if ok:
            res['nontrivial'].append(tags)


def check_checkpoints(res, A, param, spec, rng):
    """usecheckpoints=True: data of time level 0 of the checkpoint files."""
    cps = {}
    for r, rs in enumerate(spec['restarts']):
        for c in rs.get('checkpoints', []):
            cps[c] = r                      # the latest restart holding it wins
    if not cps:
        return
    its = sorted(cps)
    req = [int(v) for v in rng.choice(its, int(rng.integers(1, len(its) + 1)), replace=False)]
    for rl in spec['levels']:
        want, tensor = aurel_request(rng, spec)
        product = etgen.is_product(spec['levels'][rl]['boxes'])
        if spec['layout'] == 'proc' and len({len(l['boxes']) for l in spec['levels'].values()}) > 1:
            # a level with fewer components than there are process files: the
            # reader may refuse such a directory (it must still not misplace data)
            product = False
        tags = tagset(spec, rl) + ['checkpoint', 'chk-proc' if any(
            rs.get('chk_proc') for rs in spec['restarts']) else 'chk-onefile']
        res['observations'] += 1
        try:
            with common.Quiet():
                data = A.read_data(param, it=list(req), vars=list(want), rl=rl, restart=-1,
                                   usecheckpoints=True, split_per_it=False, skip_last=False,
                                   verbose=False)
        except Exception as e:
            if product:
                common.add_violation(res, f"read_data(usecheckpoints=True) raises {type(e).__name__}",
                                     {"err": repr(e)[:300], "tags": tags, "req": req,
                                      "checkpoints": {str(k): v for k, v in cps.items()}})
            continue
        got_its = [int(i) for i in data['it']]
        if sorted(got_its) != sorted(set(req)):
            common.add_violation(res, "checkpoint read: 'it' column differs from the request",
                                 {"req": req, "got": got_its, "tags": tags})
            continue
        if [float(t) for t in data['t']] != [etgen.time_of(i) for i in got_its]:
            common.add_violation(res, "checkpoint read: 't' column does not match",
                                 {"it": got_its, "t": [float(t) for t in data['t']]})
            continue
        inv = {etgen.aurel_name(v): v for v in spec['vars']}
        comp = []
        for w in want:
            comp += etgen.TENSORS.get(w, [w])
        ok = True
        for cname in comp:
            if cname not in data or len(data[cname]) != len(got_its):
                common.add_violation(res, "checkpoint read: variable column missing or of wrong length",
                                     {"var": cname, "keys": list(data.keys())})
                ok = False
                break
            for j, it in enumerate(got_its):
                exp = etgen.truth(inv[cname], it, rl, spec['restarts'][cps[it]]['rtag'],
                                  spec['levels'][rl]['shape'])
                got = np.asarray(data[cname][j])
                res['observations'] += 1
                if got.shape != exp.shape or not np.array_equal(got, exp):
                    why = "shape" if got.shape != exp.shape else (
                        "other time level" if np.all(got - exp == 7.0e6) else
                        classify(got, exp, spec, inv[cname], it, rl))
                    common.add_violation(res, f"checkpoint read returns wrong data ({why})",
                                         {"var": cname, "it": it, "rl": rl, "tags": tags})
                    ok = False
                    break
            if not ok:
                break
        if ok:
            res['nontrivial'].append(tags)
            res['monitor']['checkpoint_reads'] = res['monitor'].get('checkpoint_reads', 0) + 1


def classify(got, exp, spec, var, it, rl):
    """Say what kind of wrong data came back (decoded from the truth function)."""
    d = got - exp
    if np.all(d == d.flat[0]):
        off = d.flat[0]
        if abs(off) < 16 and off == int(off):
            return "data of another restart"
        if abs(off) < 64 and off == int(off):
            return "data of another level"
        if off % 64 == 0 and abs(off) < 64 * 2097152:
            return "data of another iteration"
        if off % 64 == 0:
            return "data of another variable"
        return "constant offset"
    if np.any(got == etgen.SENTINEL):
        return "ghost cells included"
    return "cells misplaced"


def check_join(res, A, spec, rng):
    """join_chunks / fixij directly on raw chunk dicts."""
    from aurel import reading
    for rl, lev in spec['levels'].items():
        shape = lev['shape']
        full = etgen.truth(spec['vars'][0], 0, rl, 1, shape)
        order = list(range(len(lev['boxes'])))
        rng.shuffle(order)
        cut = {}
        for bi in order:
            (x0, x1), (y0, y1), (z0, z1) = lev['boxes'][bi]
            cut[(x0, y0, z0)] = np.transpose(full[x0:x1, y0:y1, z0:z1], (2, 1, 0)).copy()
        product = etgen.is_product(lev['boxes'])
        res['observations'] += 1
        tags = tagset(spec, rl)
        mine = dict(cut)
        snap = {k: v.copy() for k, v in mine.items()}
        try:
            with common.Quiet():
                out = reading.fixij(reading.join_chunks(mine))
        except Exception:
            out = None
        res['observations'] += 1
        if list(mine) != list(snap) or any(not np.array_equal(mine[k], snap[k]) for k in snap):
            common.add_violation(res, "join_chunks modifies the caller's dictionary of chunks",
                                 {"chunks_before": len(snap), "chunks_after": len(mine)})
            continue
        try:
            if out is None:
                with common.Quiet():
                    out = reading.fixij(reading.join_chunks(dict(cut)))
        except Exception as e:
            if product:
                common.add_violation(res, f"join_chunks raises on a rectilinear layout [chunks/axis={tags[3]}]",
                                     {"err": repr(e)[:200], "boxes": lev['boxes'], "order": order})
            continue
        if out.shape != full.shape or not np.array_equal(out, full):
            common.add_violation(res, f"join_chunks misplaces data [{tags[6]}, chunks/axis={tags[3]}]",
                                 {"boxes": lev['boxes'], "order": order,
                                  "got_shape": out.shape, "want_shape": full.shape})
        else:
            res['nontrivial'].append(['join_chunks', tags[3], tags[6], len(order)])


def check_truncated(res, A, param, spec, rng):
    """A run killed while writing: the last iteration is missing from some (not
    all) process files. The pieces that are there must not be passed off as the
    whole grid: raise, or return nothing for that iteration."""
    import glob
    import h5py
    rl = min(spec['levels'])
    if spec['layout'] != 'proc' or not etgen.is_product(spec['levels'][rl]['boxes']):
        return
    r = len(spec['restarts']) - 1
    rs = spec['restarts'][r]
    if len(rs['its'].get(rl, [])) < 2:
        return
    it = max(rs['its'][rl])
    if any(it in q['its'].get(rl, []) for q in spec['restarts'][:r]):
        return
    v = spec['vars'][0]
    rdir = os.path.join(param['simpath'], param['simname'], f'output-{r:04d}', param['simname'])
    files = sorted(glob.glob(os.path.join(glob.escape(rdir), '*.file_*.h5')),
                   key=lambda f: int(f.rsplit('.file_', 1)[1].split('.')[0]))
    holders = []
    for f in files:
        with h5py.File(f, 'r') as h:
            if any(k.split(' it=')[0].endswith('::' + v) and f' it={it} ' in k for k in h.keys()):
                holders.append(f)
    if len(holders) < 2:
        return
    nkill = int(rng.integers(1, len(holders)))
    for f in holders[-nkill:]:
        with h5py.File(f, 'a') as h:
            for k in [k for k in h.keys() if f' it={it} ' in k]:
                del h[k]
    res['observations'] += 1
    name = etgen.aurel_name(v)
    try:
        with common.Quiet():
            data = A.read_data(param, it=[it], vars=[name], rl=rl, restart=r,
                               split_per_it=False, skip_last=False, verbose=False)
    except Exception:
        res['nontrivial'].append(['truncated-output refused', len(holders), nkill])
        return
    got = data.get(name, [None])[0] if isinstance(data, dict) else None
    if got is None:
        res['nontrivial'].append(['truncated-output skipped', len(holders), nkill])
        return
    exp = etgen.truth(v, it, rl, rs['rtag'], spec['levels'][rl]['shape'])
    got = np.asarray(got)
    if got.shape != exp.shape or not np.array_equal(got, exp):
        common.add_violation(res, "incomplete iteration (missing from some process files) returned "
                                  "as if it were the whole grid",
                             {"it": it, "got_shape": got.shape, "want_shape": exp.shape,
                              "process_files": len(holders), "files_without_it": nkill})


def run_case(spec0):
    res = common.new_result(spec0)
    A = harness.aurel()
    rng = np.random.default_rng([int(spec0['seed']), 12])
    spec = gen_spec(spec0['seed'], 'quick')
    os.makedirs(common.WORK, exist_ok=True)
    top = tempfile.mkdtemp(dir=common.WORK, prefix="c11_")
    root = top
    if spec0['seed'] % 3 == 0:
        # where the data lives (and what the simulation is called) is no part of
        # the layout: names from the reader's own vocabulary
        HOST = ['my.file_sims', 'checkpoint.chkpt', 'run.it_8.h5', 'output-0003', 'all_iterations',
                'rl=1 c=2', 'with space', 'bracket[0]', 'restart_run']
        root = os.path.join(top, HOST[(spec0['seed'] // 3) % len(HOST)])
        os.makedirs(root)
        if (spec0['seed'] // 3) % 2:
            spec['simname'] = HOST[(spec0['seed'] // 5) % len(HOST)].replace('/', '_')
    try:
        param = etgen.make_sim(root, spec)
        check_join(res, A, spec, rng)
        for _ in range(2):
            check_read(res, A, param, spec, rng)
        check_checkpoints(res, A, param, spec, rng)
        # explicit restart request: data must come from that restart
        r = int(rng.integers(len(spec['restarts'])))
        rs = spec['restarts'][r]
        rl = 0
        if rs['its'].get(rl):
            it = int(rng.choice(rs['its'][rl]))
            v = spec['vars'][0]
            res['observations'] += 1
            try:
                with common.Quiet():
                    data = A.read_data(param, it=[it], vars=[etgen.aurel_name(v)], rl=rl,
                                       restart=r, split_per_it=False, skip_last=False,
                                       verbose=False)
                exp = etgen.truth(v, it, rl, rs['rtag'], spec['levels'][rl]['shape'])
                got = np.asarray(data[etgen.aurel_name(v)][0])
                if got.shape != exp.shape or not np.array_equal(got, exp):
                    why = "shape" if got.shape != exp.shape else classify(got, exp, spec, v, it, rl)
                    common.add_violation(res, f"explicit restart=r: wrong data returned ({why})",
                                         {"restart": r, "it": it,
                                          "restarts": [q['its'] for q in spec['restarts']]})
                else:
                    res['nontrivial'].append(['explicit-restart', len(spec['restarts'])])
            except Exception as e:
                if etgen.is_product(spec['levels'][rl]['boxes']) and not (
                        spec['layout'] == 'proc' and len({len(l['boxes']) for l in spec['levels'].values()}) > 1):
                    common.add_violation(res, f"read_data(restart=r) raises {type(e).__name__}",
                                         {"err": repr(e)[:200]})
        check_truncated(res, A, param, spec, rng)
    finally:
        shutil.rmtree(top, ignore_errors=True)
    return res
