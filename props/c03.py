"""C03 - frozen inputs are never evicted; clean-up bookkeeping stays consistent."""
import os
import numpy as np

from lib import common, harness, history as H, monitor, spacetimes as S
from props import c01

LEVEL = "exploration"
RULE = ("case = (member, input style, how inputs were frozen {freeze_data, "
        "load_data, over_time}, grid incl. non-cubic and tiny, hostile cache "
        "settings: period 1..20, memory threshold from far below the frozen "
        "inputs to 1e3 scalars, importance overrides 0/1e-9/1e9 on NON-frozen "
        "keys, random walk of requests incl. container-valued entries). "
        "Invariants asserted at a hook after every clean-up and every "
        "top-level request: I1 frozen keys present / same object / same bytes; "
        "I2 age table subset of cache; I3 clean-up removes only whole unfrozen "
        "entries and replaces nothing; I4 clean-up raises nothing; I5 bounded "
        "get_size work per clean-up; I6 calculation_count bookkeeping. "
        "non-trivial = distinct (eviction path in {regular-strain, memory-loop, "
        "too-small-break}, number evicted bucket, container key involved, "
        "freeze route)")
ASSUMPTIONS = ["class-level wrappers observe every AurelCore instance incl. those created inside over_time",
               "eviction paths identified by sys.monitoring LINE events on cleanup_cache"]
TIMEOUT = {"quick": 1800, "thorough": 7000}
MIN_NONTRIVIAL = {"quick": 20, "thorough": 30}
CONTAINERS = ['dtconserved', 'Weyl_Psi', 'Weyl_invariants', 'Psi4_lm']


def cases(tier, sd):
    rng = np.random.default_rng([int(sd), 33])
    n = 60 if tier == "quick" else 400
    out = []
    for i in range(n):
        route = ['freeze_data', 'load_data', 'over_time', 'peek_then_freeze'][i % 4]
        style = ['tensor', 'components', 'fluid0'][int(rng.integers(3))]
        if style == 'fluid0':
            m = dict(family=S.PulledBack.name, seed=int(rng.integers(1 << 20)),
                     base='kasner', period=2.0)
        else:
            m = dict(family=S.ADMTrig.name, seed=int(rng.integers(1 << 20)), period=2.0)
        shape = [int(v) for v in rng.integers(5, 9, 3)] if rng.random() < 0.5 else [6, 6, 6]
        scal = 8.0 * np.prod(shape) / 1024 ** 3
        imp = None
        if rng.random() < 0.6:
            ks = ['s_Gamma_udd3', 'gammaup3', 'gdown4', 'Kup3', 's_RicciS', 'Weyl_Psi',
                  'st_Riemann_down4', 'dtconserved']
            imp = {k: float(rng.choice([0.0, 1e-9, 1.0, 1e9]))
                   for k in rng.choice(ks, 3, replace=False)}
        out.append(dict(member=m, style=style, route=route, shape=shape,
                        extra_frozen=bool(rng.random() < 0.35),
                        custom_field=bool(rng.random() < 0.5),
                        order=int(rng.choice([2, 4])), Lambda=0.0,
                        cache=dict(every=int(rng.choice([1, 1, 2, 3, 5, 20])),
                                   gb=float(scal * 10 ** rng.uniform(-2.0, 3.0)),
                                   importance=imp),
                        length=int(rng.integers(8, 45)),
                        hseed=int(rng.integers(1 << 30))))
    return out


def run_case(spec):
    res = common.new_result(spec)
    keys = H.all_keys()
    rng = np.random.default_rng([int(spec['hseed']), 5])
    ops = H.gen_history(rng, spec['length'], keys, p_helper=0.05)
    # sprinkle container-valued entries to stress get_size
    for _ in range(3):
        ops.insert(int(rng.integers(len(ops) + 1)),
                   ('key', CONTAINERS[int(rng.integers(len(CONTAINERS)))]))
    n = tuple(spec['shape'])
    lo, L = -1.0, 2.0
    d = tuple(L / k for k in n)
    fd = harness.make_fd(n, lo, d, order=spec['order'], boundary='periodic')
    inputs, ex = H.build_inputs(spec, n, d, lo)
    A = harness.aurel()
    trace = {}
    violations = []
    counters = {}
    tr = monitor.BranchTrace(c01.traced_functions())   # real code objects, before patching
    with monitor.CoreProbe() as probe, tr:
        kw = dict(verbose=False, clear_cache_every_nbr_calc=spec['cache']['every'],
                  memory_threshold_inGB=spec['cache']['gb'], lmax=2)
        if spec['route'] == 'over_time':
            # the driver creates, loads and freezes its own instances
            from aurel import time as atime
            nsteps = 2
            data = {'it': [0, 1]}
            for k, v in inputs.items():
                data[k] = [v.copy(), v.copy() * (1.0 if k != 'alpha' else 1.0)]
            want = [o[1] for o in ops if o[0] == 'key' and o[1] not in CONTAINERS][:12]

            returned = []

            def custom(rel):
                # long enough for several clean-ups to run while it is evaluated
                out = rel['Ktrace'] * 2.0 + rel['Hamiltonian'] * 0 + rel['s_RicciS'] * 0
                returned.append(out)
                return out

            def custom_press(rel):
                # a user-supplied field under a catalogue name: it replaces the
                # built-in default for the rest of the step
                return np.full(n, 0.37)
            ident = [k for k in ('alpha', 'Ktrace_in') if False]
            probes = ['gxx', 'kxy', 'betaz'] if spec['style'] != 'components' else ['gammadown3', 'Kdown3']
            with common.Quiet():
                try:
                    cust = ([{'press': custom_press}, {'press2': lambda rel: rel['press'] * 2.0}]
                            if 'press' not in data else []) + [{'myvar': custom}]
                    if 'rho0' not in data and 'rho' not in data:
                        # ... and one that built-ins are computed from
                        cust = [{'rho0': lambda rel: np.full(n, 0.21)}] + cust
                    dep = ['rho'] if any('rho0' in c for c in cust) else []
                    tab = atime.over_time(data, fd, vars=cust + probes + want + dep,
                                          estimates=['max'], verbose=False, **{
                                              k: v for k, v in kw.items() if k != 'verbose'})
                    # quantities that are pure re-packagings of the frozen inputs
                    # must come back as given (no fall-back to the defaults)
                    if dep and not all(np.allclose(np.asarray(tab['rho'][row]), 0.21, rtol=1e-13, atol=0)
                                       for row in range(nsteps)):
                        violations.append(("I1 custom variable of over_time was lost during the step"
                                           " (a built-in computed from it fell back to the default)",
                                           {"var": "rho0 -> rho"}))
                    if any('press' in c for c in cust) and not all(np.array_equal(np.asarray(tab['press'][row]),
                                                                 np.full(n, 0.37)) for row in range(nsteps)):
                        violations.append(("I1 custom variable of over_time was lost during the step"
                                           " (fell back to the built-in default)", {"var": "press"}))
                    if not all(any(np.array_equal(np.asarray(tab['myvar'][row]), a) for a in returned)
                               for row in range(nsteps)):
                        violations.append(("I1 custom variable of over_time was lost during the step",
                                           {"var": "myvar"}))
                    ij = {'gxx': ('gammadown3', (0, 0)), 'kxy': ('Kdown3', (0, 1))}
                    for pk in probes:
                        for row in range(nsteps):
                            if pk == 'betaz':
                                wantv = inputs['betaup3'][2]
                            elif pk in ij:
                                wantv = inputs[ij[pk][0]][ij[pk][1]]
                            elif pk == 'gammadown3':
                                wantv = np.array([[inputs['g' + ''.join(sorted(a + b))] for b in 'xyz'] for a in 'xyz'])
                            else:
                                wantv = np.array([[inputs['k' + ''.join(sorted(a + b))] for b in 'xyz'] for a in 'xyz'])
                            if not np.array_equal(np.asarray(tab[pk][row]), wantv):
                                violations.append(("I1 over_time result fell back from the frozen inputs",
                                                   {"var": pk}))
                                break
                except Exception as e:
                    violations.append(("over_time raises " + type(e).__name__,
                                       {"err": repr(e)[:300]}))
            states = list(probe.states.values())
        else:
            if spec.get('extra_frozen') and ex is not None and spec['style'] != 'fluid0':
                # derived tensors supplied by the user as inputs are frozen too
                for k in ('st_Riemann_down4', 's_Riemann_down3', 'gdown4', 's_Gamma_udd3', 's_RicciS'):
                    inputs[k] = np.array(ex[k], copy=True)
            mm_dir = None
            if spec['hseed'] % 5 == 2:
                # one input comes memory-mapped from disk (np.load(..., mmap_mode='r+')):
                # an ndarray subclass whose base is not an ndarray
                import tempfile
                os.makedirs(common.WORK, exist_ok=True)
                mm_dir = tempfile.mkdtemp(dir=common.WORK, prefix="c03mm_")
                k0 = sorted(inputs)[0]
                np.save(os.path.join(mm_dir, 'a.npy'), inputs[k0])
                inputs[k0] = np.load(os.path.join(mm_dir, 'a.npy'), mmap_mode='r+')
            with common.Quiet():
                rel = A.AurelCore(fd, **kw)
                if spec['route'] == 'load_data' and spec['hseed'] % 4 == 3 and len(inputs) > 1:
                    # some inputs typed in by hand and looked at, the rest loaded:
                    # load_data freezes everything that is in data at that moment
                    names = list(inputs)
                    half = max(1, len(names) // 2)
                    rel.clear_cache_every_nbr_calc = 10 ** 9
                    rel.memory_threshold_inGB = 1e9
                    for k in names[:half]:
                        rel.data[k] = inputs[k]
                        rel[k]
                    rel.load_data({k: [inputs[k]] for k in names[half:]}, 0)
                    rel.clear_cache_every_nbr_calc = spec['cache']['every']
                    rel.memory_threshold_inGB = spec['cache']['gb']
                elif spec['route'] == 'load_data' and spec['hseed'] % 2 and len(inputs) > 1:
                    # geometry first, a look at it, then the rest: the second
                    # call must not disturb what the first one froze
                    names = list(inputs)
                    half = max(1, len(names) // 2)
                    rel.load_data({k: [None, inputs[k]] for k in names[:half]}, 1)
                    for k in names[:half] + ['gammadet']:
                        rel[k]
                    rel.load_data({k: [inputs[k]] for k in names[half:]}, 0)
                elif spec['route'] == 'load_data':
                    sim = {k: [None, v] for k, v in inputs.items()}
                    rel.load_data(sim, 1)
                else:
                    for k, v in inputs.items():
                        rel.data[k] = v
                    if spec['route'] == 'peek_then_freeze':
                        # look at a few things before freezing (freeze_data
                        # freezes whatever is in data at that moment); nothing
                        # is protected yet, so no clean-up pressure while peeking
                        rel.clear_cache_every_nbr_calc = 10 ** 9
                        rel.memory_threshold_inGB = 1e9
                        if spec['style'] == 'components' and spec['hseed'] % 2:
                            # regular clean-ups do run while peeking at the
                            # scalar inputs, but each of them is re-read often
                            # enough to be kept (age <= 6 against a period of
                            # 12): the clean-up weighs them while they are still
                            # ordinary entries. Larger inputs are typed in later.
                            late = {q: rel.data.pop(q) for q in list(inputs) if np.ndim(inputs[q]) != 3}
                            rel.clear_cache_every_nbr_calc = 12
                            for k in ('gammadet', 'Ktrace', 'betamag', 'gammadet', 'Kdown3',
                                      'betadown3', 'Aup3', 's_Gamma_udd3', 'dtalpha', 'Ktrace',
                                      'Adown3', 'A2', 'gammadown3_bssnok', 'phi_bssnok'):
                                if rel.calculation_count >= 13:
                                    break
                                if rel.calculation_count % 12 < 7:
                                    for q in inputs:
                                        if q not in late:
                                            rel[q]
                                rel[k]
                            rel.data.update(late)
                        for k in ('gammadet', 'alpha', 'Ktrace', list(inputs)[0]):
                            rel[k]
                        for q, v in inputs.items():       # (anything evicted while unprotected
                            if q not in rel.data:         #  is simply put back before freezing)
                                rel.data[q] = v
                        rel.clear_cache_every_nbr_calc = spec['cache']['every']
                        rel.memory_threshold_inGB = spec['cache']['gb']
                    rel.freeze_data()
            if spec['cache'].get('importance'):
                for k, v in spec['cache']['importance'].items():
                    if k not in rel.data:
                        rel.var_importance[k] = v
            if spec.get('custom_field'):
                # a user-defined field stored next to the catalogue quantities
                rel.data['my_field'] = np.full(n, 3.25)
                ops = ops + [('key', 'my_field')]
                for _ in range(3):
                    ops.insert(int(rng.integers(len(ops))), ('key', 'my_field'))
            for oi, op in enumerate(ops):
                if oi == len(ops) // 3:
                    # another object on the same grid comes to life in the middle of
                    # the session (what over_time does for every step): this one
                    # keeps its frozen inputs
                    with common.Quiet():
                        other = A.AurelCore(fd, **kw)
                        other['gammadet']
                status, val = H.do_op(rel, op)
                if status == 'raise' and isinstance(val, (RecursionError, KeyError, UnboundLocalError)):
                    violations.append((f"request raises {type(val).__name__}", {"op": op[1],
                                       "err": repr(val)[:120]}))
            states = [probe.state(rel)]
            # at the end: every frozen input is still there, same object, same bytes
            st0 = states[0]
            for k, v in inputs.items():
                if k not in rel.data or rel.data[k] is not v:
                    violations.append(("I1 frozen input missing or replaced at the end", {"key": k}))
                elif isinstance(v, np.ndarray) and k in st0.frozen and st0.frozen[k][1] is not None \
                        and monitor.digest(v) != st0.frozen[k][1]:
                    violations.append(("I1 frozen input altered", {"key": k}))
        for st in states:
            for name, det in st.violations:
                violations.append((name, det))
            for k, v in st.counters.items():
                counters[k] = counters.get(k, 0) + v if k != 'nested_max' else max(counters.get(k, 0), v)
            # after the last request: final consistency
            r = st.rel
            for k in st.frozen:
                if r.var_importance.get(k, 1.0) == 0 and k not in r.data:
                    violations.append(("I1 frozen key evicted", {"key": k, "where": "end"}))
        res['observations'] += counters.get('cleanups', 0) + counters.get('hits', 0) + counters.get('misses', 0)
    if 'mm_dir' in dir() and mm_dir:
        import shutil
        shutil.rmtree(mm_dir, ignore_errors=True)
    cmap = H.cleanup_line_map()
    paths = {}
    for (q, l), c in tr.lines.items():
        if q.endswith('cleanup_cache') and l in cmap:
            paths[cmap[l]] = paths.get(cmap[l], 0) + c
    res['monitor'] = dict(counters)
    res['monitor']['paths'] = paths
    res['monitor']['instances'] = len(states)
    seen = set()
    for name, det in violations:
        key = name + (f" [{det.get('key')}]" if name.startswith('I1') and False else "")
        if key in seen:
            continue
        seen.add(key)
        common.add_violation(res, key, dict(det, route=spec['route'], cache=spec['cache'],
                                            shape=spec['shape']))
    nev = counters.get('evict_regular', 0) + counters.get('evict_memory', 0)
    for pth, c in paths.items():
        res['nontrivial'].append([pth, 'many' if c > 10 else 'few', spec['route'],
                                  spec['cache']['every'] == 1])
    if nev:
        res['nontrivial'].append(['evictions', min(nev // 10, 5), spec['route'], spec['style']])
    return res


def coverage_check(tier, monitor_totals, results):
    out = []
    p = monitor_totals.get('paths', {})
    for pth in ('regular-strain', 'memory-loop', 'too-small-break'):
        if not p.get(pth):
            out.append(f"eviction path {pth} never executed")
    if not monitor_totals.get('cleanups'):
        out.append("cleanup_cache hook never reached")
    return out
