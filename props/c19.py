"""C19 - kinematics of the default (Eulerian) observers."""
import numpy as np

from lib import common, engine, harness, spacetimes as S
from props import c04

LEVEL = "exploration"
RULE = ("case = (spacetime member, fd_order, grid mode, N); the fluid state is "
        "left at its default (at rest w.r.t. the slicing); observations: uup4 "
        "vs n^mu (round-off), theta vs -K, thetadown4/sheardown4 vs the "
        "4D extension of -K_ij/-A_ij, shear2 vs A^2, omega2 and omegadown4 vs "
        "0, accelerationdown4 vs (beta^i d_i ln alpha, d_i ln alpha) and its raised form, "
        "a_mu n^mu vs 0; non-trivial = distinct (member class, mode, order, "
        "quantity, component class) with a reached verdict")
ASSUMPTIONS = c04.ASSUMPTIONS
TIMEOUT = {"quick": 1500, "thorough": 7000}
MIN_NONTRIVIAL = {"quick": 40, "thorough": 120}

ALG = ['uup4', 'gdown4', 'hdown4']
KEYS = ['theta', 'thetadown4', 'sheardown4', 'shear2', 'omegadown4', 'omega2',
        'accelerationdown4', 'accelerationup4', 'acc_dot_n']


def cases(tier, sd):
    # vacuum members (gauge-transformed Minkowski / Kasner) are run with the
    # vacuum flag set: the kinematics of the Eulerian observers do not depend on it
    return list(c04.cases(tier, sd + 31))


def s_to_st(b, f3):
    f0k = np.einsum('i...,ik...->k...', b, f3)
    f00 = np.einsum('i...,i...->...', b, f0k)
    out = np.zeros((4, 4) + f00.shape)
    out[0, 0] = f00
    out[0, 1:] = f0k
    out[1:, 0] = f0k
    out[1:, 1:] = f3
    return out


def _run_case(spec):
    res = common.new_result(spec)
    grids, _ = engine.grid_plan(spec)
    vals = []
    spec2 = dict(spec, vacuum=True)   # no matter input needed or given
    # the algebraic keys (gdown4, ...) first or last: gup4 & co. are reached
    # with and without gdown4 in the cache
    first = bool((spec['member'].get('seed', 0) + spec['order'] // 2) % 2)
    for g in grids:
        ex, rel = c04.evaluate(spec2, g, [], rel_kw=dict(vacuum=bool(spec['vacuum'])))
        # (uup4 is asked first in both arms: nothing has assembled betaup3 yet)
        code = engine.eval_keys(rel, (ALG + KEYS[:-1]) if first else (ALG[:1] + KEYS[:-1] + ALG[1:]))
        a = code['accelerationdown4']
        if isinstance(a, Exception):
            code['acc_dot_n'] = a
        else:
            code['acc_dot_n'] = np.einsum('a...,a...->...', a, ex['nup4'])
        b = ex['betaup3']
        exd = {'uup4': ex['nup4'], 'gdown4': ex['gdown4'],
               'hdown4': ex['gdown4'] + np.einsum('a...,b...->ab...', ex['ndown4'], ex['ndown4']),
               'theta': -ex['Ktrace'],
               'thetadown4': -s_to_st(b, ex['Kdown3']),
               'sheardown4': -s_to_st(b, ex['Adown3']),
               'shear2': ex['A2'],
               'omegadown4': np.zeros((4, 4) + b.shape[1:]),
               'omega2': np.zeros(b.shape[1:]),
               'acc_dot_n': np.zeros(b.shape[1:])}
        dlna = ex['dalpha'] / ex['alpha']
        exd['accelerationdown4'] = np.concatenate(
            [np.einsum('i...,i...->...', b, dlna)[None], dlna], axis=0)
        exd['accelerationup4'] = np.einsum('ab...,b...->a...', ex['gup4'],
                                           exd['accelerationdown4'])
        exd['_ex'] = ex
        vals.append((exd, code))
        del rel
    ex = vals[1][0]['_ex']
    K = float(np.abs(ex['Kdown3']).max())
    G4 = float(np.abs(ex['st_Gamma_udd4']).max())
    hints = {'omegadown4': K + G4, 'omega2': (K + G4) ** 2,
             'acc_dot_n': G4, 'accelerationdown4': G4, 'accelerationup4': G4, 'theta': K,
             'thetadown4': K, 'sheardown4': K, 'shear2': K * K}
    engine.compare(res, spec, vals, KEYS, algebraic=ALG,
                   tags=[c04.mclass(spec['member']), spec['mode'], spec['order'],
                         'vac' if spec['vacuum'] else 'nonvac', 'alg-first' if first else 'alg-last'],
                   scale_hints=hints)
    return res


def run_case(spec):
    return engine.refine_if_marginal(_run_case, spec, _run_case(spec))
