"""C09 - perfect-fluid stress-energy tensor and Eulerian projections."""
import numpy as np

from lib import common, harness, spacetimes as S
from lib.jets import Trig
from props import c04

LEVEL = "exploration"
RULE = ("case = (3+1 background member incl. shift/lapse/shear switches, "
        "fluid seed, maximal speed, input combination in {rho0+eps+press+W+v, "
        "rho only, rho+rho0, Tdown4 direct}, non-cubic grid); every fluid / "
        "projection key is compared at every grid point with harness closed "
        "forms (u^mu = W(1/alpha, v^i - beta^i/alpha), T = rho u u + p h, "
        "E = rho0 h W^2 - p, S_i = rho0 h W^2 v_i, ...), pure algebra so the "
        "tolerance is 1e-9 relative; both arms of Ttrace and st_Ricci_down3 "
        "are requested; non-trivial = distinct (key, input combination, gauge "
        "class) with non-zero expected value")
ASSUMPTIONS = ["closed forms of perfect-fluid projections in the harness (numpy)",
               "round-off tolerance 1e-9 * max|expected| per key"]
TIMEOUT = {"quick": 900, "thorough": 3000}
MIN_NONTRIVIAL = {"quick": 80, "thorough": 200}
TOL = 1e-9

FLUID_KEYS = ['rho', 'rho0', 'eps', 'enthalpy', 'velup3', 'velup4', 'veldown3',
              'veldown4', 'uup0', 'uup3', 'uup4', 'udown4', 'udown3', 'hdown4',
              'hmixed4', 'hup4', 'hdet', 'u.u(up)', 'u.u(down)',
              'Tdown4', 'Tup4', 'Ttrace',
              'rho_n', 'fluxup3_n', 'fluxdown3_n', 'Stressup3_n',
              'Stressdown3_n', 'Stresstrace_n', 'press_n',
              'anisotropic_press_down3_n', 'angmomdown3_n', 'angmomup3_n',
              'conserved_D', 'conserved_E', 'conserved_Sdown4',
              'conserved_Sdown3', 'conserved_Sup4', 'conserved_Sup3',
              'st_Ricci_down4', 'st_Ricci_down3']
COMBOS = ['full', 'rho_only', 'rho_rho0', 'Tdown4']


def cases(tier, sd):
    out = []
    mem = c04.members(tier, sd + 5)
    nf = 2 if tier == "quick" else 10
    shapes = [(6, 5, 4), (4, 7, 5), (5, 4, 6)]
    for mi, m in enumerate(mem):
        for combo in COMBOS:
            for f in range(nf):
                out.append(dict(member=m, combo=combo, fseed=100 * sd + 10 * mi + f,
                                geom=['tensor', 'components', 'partial', 'tensor'][
                                    (mi + f + COMBOS.index(combo)) % 4],
                                vmax=[0.3, 0.9, 0.99][(mi + f) % 3],
                                shape=shapes[(mi + f) % 3],
                                Lambda=[0.0, 0.2, -0.1][mi % 3], t0=0.3))
    return out


def fluid(spec, ex, x, y, z):
    rng = np.random.default_rng([int(spec['fseed']), 909])
    X = (np.full(x.shape, 0.3), x, y, z)
    R = lambda c0=0.0, amp=1.0: Trig.random(rng, 4, 2, amp, 2.0, c0=c0).deriv(X)
    rho0 = np.maximum(R(0.3), 0.0)             # exact zeros in part of the box
    eps = np.abs(R(0.2, 0.3))
    press = np.abs(R(0.1, 0.2))
    # velocity with gamma-norm < vmax
    v = np.array([R(), R(), R()])
    gam = ex['gammadown3']
    nrm = np.sqrt(np.einsum('i...,j...,ij...->...', v, v, gam))
    v = v * (spec['vmax'] * np.tanh(nrm) / np.maximum(nrm, 1e-300))
    v2 = np.einsum('i...,j...,ij...->...', v, v, gam)
    W = 1 / np.sqrt(1 - v2)
    if (spec['fseed'] // 10) % 3 == 1 and spec['fseed'] % 2 == 1:
        # a tenuous fluid: densities and pressures of order 1e-11 (nothing about
        # the closed forms depends on the overall scale)
        rho0, press = rho0 * 1e-11, press * 1e-11
    return dict(rho0=rho0, eps=eps, press=press, v=v, W=W)


def expected(spec, ex, fl, x, y, z, combo):
    """Closed forms for a given input combination."""
    al, b, gam, gu = ex['alpha'], ex['betaup3'], ex['gammadown3'], ex['gammaup3']
    G, Gi = ex['gdown4'], ex['gup4']
    shp = x.shape
    kappa, Lam = 8 * np.pi, spec['Lambda']
    o = {}
    if combo == 'Tdown4':
        T = ex['Tdown4_in']
        n = ex['nup4']
        g4u = Gi + np.einsum('a...,b...->ab...', n, n)
        o['Tup4'] = np.einsum('ac...,bd...,ab...->cd...', Gi, Gi, T)
        o['Ttrace'] = np.einsum('ab...,ab...->...', Gi, T)
        o['rho_n'] = np.einsum('ab...,a...,b...->...', T, n, n)
        o['fluxup3_n'] = -np.einsum('ab...,bc...,c...->a...', g4u, T, n)[1:]
        o['fluxdown3_n'] = np.einsum('ij...,j...->i...', gam, o['fluxup3_n'])
        S = T[1:, 1:]
        rho_eff = None
    else:
        if combo == 'full':
            rho0, eps, p, v, W = fl['rho0'], fl['eps'], fl['press'], fl['v'], fl['W']
        elif combo == 'rho_only':
            rho0, eps, p = fl['rho0'] * (1 + fl['eps']), np.zeros(shp), np.zeros(shp)
            v, W = np.zeros((3,) + shp), np.ones(shp)
        else:  # rho and rho0 given, eps derived (0 where rho0 == 0)
            rho0, eps, p = fl['rho0'], np.where(fl['rho0'] != 0, fl['eps'], 0.0), np.zeros(shp)
            v, W = np.zeros((3,) + shp), np.ones(shp)
        rho = rho0 * (1 + eps)
        o['rho'], o['rho0'], o['eps'] = rho, rho0, eps
        with np.errstate(divide='ignore', invalid='ignore'):
            o['enthalpy'] = 1 + eps + np.where(rho0 != 0, p / rho0, 0.0)
        o['velup3'] = v
        o['velup4'] = np.concatenate([np.zeros((1,) + shp), v])
        vd = np.einsum('ij...,j...->i...', gam, v)
        o['veldown3'] = vd
        o['veldown4'] = np.concatenate(
            [np.einsum('i...,i...->...', b, vd)[None], vd])
        uu = np.concatenate([(W / al)[None], W * (v - b / al)])
        ud = np.einsum('ab...,b...->a...', G, uu)
        o['uup0'], o['uup3'], o['uup4'] = uu[0], uu[1:], uu
        o['udown4'], o['udown3'] = ud, ud[1:]
        o['u.u(up)'] = -np.ones(shp)
        o['u.u(down)'] = -np.ones(shp)
        hd = G + np.einsum('a...,b...->ab...', ud, ud)
        o['hdown4'] = hd
        o['hmixed4'] = np.einsum('ac...,cb...->ab...', Gi, hd)
        o['hup4'] = Gi + np.einsum('a...,b...->ab...', uu, uu)
        o['hdet'] = np.linalg.det(np.moveaxis(hd[1:, 1:], (0, 1), (-2, -1)))
        T = rho * np.einsum('a...,b...->ab...', ud, ud) + p * hd
        o['Tup4'] = (rho * np.einsum('a...,b...->ab...', uu, uu) + p * o['hup4'])
        o['Ttrace'] = -rho + 3 * p
        rhW = (rho + p) * W ** 2
        o['rho_n'] = rhW - p
        o['fluxdown3_n'] = rhW * vd
        o['fluxup3_n'] = rhW * v
        S = rhW * np.einsum('i...,j...->ij...', vd, vd) + p * gam
        sg = np.sqrt(ex['gammadet'])
        D = rho0 * W * sg
        o['conserved_D'] = D
        o['conserved_E'] = D * eps
        o['conserved_Sdown4'] = D * o['enthalpy'] * ud
        o['conserved_Sdown3'] = o['conserved_Sdown4'][1:]
        o['conserved_Sup4'] = np.einsum('ab...,b...->a...', Gi, o['conserved_Sdown4'])
        o['conserved_Sup3'] = o['conserved_Sup4'][1:]
    o['Tdown4'] = T
    o['Stressdown3_n'] = S
    o['Stressup3_n'] = np.einsum('ia...,jb...,ij...->ab...', gu, gu, S)
    o['Stresstrace_n'] = np.einsum('ij...,ij...->...', gu, S)
    o['press_n'] = o['Stresstrace_n'] / 3
    o['anisotropic_press_down3_n'] = S - gam * o['press_n']
    eps3 = S_LC3(ex['gammadet'])
    o['angmomdown3_n'] = np.einsum('ijk...,j...,k...->i...', eps3,
                                   np.array([x, y, z]), o['fluxup3_n'])
    o['angmomup3_n'] = np.einsum('ij...,j...->i...', gu, o['angmomdown3_n'])
    Ric = Lam * G + kappa * (T - 0.5 * o['Ttrace'] * G)
    o['st_Ricci_down4'] = Ric
    o['st_Ricci_down3'] = Ric[1:, 1:]
    return o


def S_LC3(det):
    return S.LC3.reshape(S.LC3.shape + (1, 1, 1)) * np.sqrt(det)


def zero_shift_x(ex):
    """Same 3+1 data with beta^x := 0 (the fields are only used pointwise)."""
    ex = dict(ex)
    b = ex['betaup3'].copy()
    b[0] = 0.0
    al, gam = ex['alpha'], ex['gammadown3']
    bd = np.einsum('ij...,j...->i...', gam, b)
    G = np.zeros_like(ex['gdown4'])
    G[0, 0] = -al ** 2 + np.einsum('i...,i...->...', b, bd)
    G[0, 1:] = G[1:, 0] = bd
    G[1:, 1:] = gam
    db = ex['dtbetaup3'].copy()
    db[0] = 0.0
    ex.update(betaup3=b, dtbetaup3=db, betadown3=bd, gdown4=G,
              gup4=np.moveaxis(np.linalg.inv(np.moveaxis(G, (0, 1), (-2, -1))), (-2, -1), (0, 1)),
              nup4=np.concatenate([(1 / al)[None], -b / al]))
    return ex


def inputs_for(spec, ex, fl, combo):
    inp = harness.adm_inputs(ex)
    if spec.get('geom', 'tensor') != 'tensor':
        # the same geometry given component by component; 'partial': the
        # vanishing beta^x is simply not supplied
        ij = [(0, 0), (0, 1), (0, 2), (1, 1), (1, 2), (2, 2)]
        inp = {'alpha': ex['alpha'], 'dtalpha': ex['dtalpha']}
        for nm, (i, j) in zip(['gxx', 'gxy', 'gxz', 'gyy', 'gyz', 'gzz'], ij):
            inp[nm] = ex['gammadown3'][i, j]
        for nm, (i, j) in zip(['kxx', 'kxy', 'kxz', 'kyy', 'kyz', 'kzz'], ij):
            inp[nm] = ex['Kdown3'][i, j]
        for i, c in enumerate('xyz'):
            if spec['geom'] == 'partial' and c == 'x':
                continue
            inp['beta' + c] = ex['betaup3'][i]
            inp['dtbeta' + c] = ex['dtbetaup3'][i]
    if combo == 'full':
        inp.update(rho0=fl['rho0'], eps=fl['eps'], press=fl['press'],
                   w_lorentz=fl['W'], velx=fl['v'][0], vely=fl['v'][1],
                   velz=fl['v'][2])
    elif combo == 'rho_only':
        inp['rho'] = fl['rho0'] * (1 + fl['eps'])
    elif combo == 'rho_rho0':
        inp['rho0'] = fl['rho0']
        inp['rho'] = fl['rho0'] * (1 + np.where(fl['rho0'] != 0, fl['eps'], 0.0))
    else:
        inp['Tdown4'] = ex['Tdown4_in']
    return inp


def gclass(m):
    if m.get('shift') == 0.0:
        return 'beta=0'
    if m.get('lapse') == 0.0:
        return 'alpha=1'
    return 'general'


def run_case(spec):
    res = common.new_result(spec)
    st = S.member(spec['member'])
    n = spec['shape']
    lo, d = (-0.9, -0.7, -0.5), (0.31, 0.37, 0.41)
    x, y, z = harness.coords(n, lo, d)
    ex = S.exact_fields(st, spec['t0'], x, y, z, level='adm')
    if spec.get('geom') == 'partial':
        ex = zero_shift_x(ex)
    combo = spec['combo']
    fl = fluid(spec, ex, x, y, z)
    # absolute floor for expected zeros: follows the density scale for the
    # quantities that are proportional to it
    tenuous = (spec['fseed'] // 10) % 3 == 1 and spec['fseed'] % 2 == 1
    DENS = ('rho', 'rho0', 'press', 'Tdown4', 'Tup4', 'Ttrace', 'rho_n', 'flux', 'Stress', 'press_n',
            'anisotropic', 'angmom', 'conserved')
    floor_of = lambda k: 1e-12 * (1e-11 if tenuous and k.startswith(DENS) else 1.0)
    if combo == 'Tdown4':
        # any symmetric tensor: take a perfect fluid plus a random symmetric part
        exf = expected(spec, ex, fl, x, y, z, 'full')
        rng = np.random.default_rng([int(spec['fseed']), 5])
        Rn = rng.normal(size=(4, 4) + x.shape) * 0.2
        ex['Tdown4_in'] = exf['Tdown4'] + Rn + np.einsum('ab...->ba...', Rn)
    want = expected(spec, ex, fl, x, y, z, combo)
    fd = harness.make_fd(n, lo, d, order=4)
    orders = [('fresh', None), ('Tdown4_first', ['Tdown4', 'st_Ricci_down4']), ('shuffled', None)]
    for oname, first in orders:
        rel = harness.make_rel(fd, inputs_for(spec, ex, fl, combo),
                               Lambda=spec['Lambda'],
                               clear_cache_every_nbr_calc=10**9,
                               memory_threshold_inGB=1e9)
        with common.Quiet():
            if first:
                for k in first:
                    rel[k]
            else:
                # arm 1 of Ttrace / st_Ricci_down3 must be reached first
                res['monitor']['Ttrace_arm_projection'] = res['monitor'].get(
                    'Ttrace_arm_projection', 0) + int('Tdown4' not in rel.data)
            keys = ['Ttrace', 'st_Ricci_down3'] + [k for k in FLUID_KEYS if k in want]
            if oname == 'shuffled':      # every key gets its turn at being asked first
                prm = np.random.default_rng([int(spec['fseed']), 77]).permutation(len(keys))
                keys = [keys[i] for i in prm]
                # (st_Ricci_down4 without Tdown4 in the cache is the geometric
                #  Ricci tensor by design: keep it behind Tdown4)
                a, b = keys.index('Tdown4'), keys.index('st_Ricci_down4')
                if b < a:
                    keys[a], keys[b] = keys[b], keys[a]
            for k in keys:
                res['observations'] += 1
                try:
                    if k == 'u.u(up)':
                        val = np.einsum('a...,b...,ab...->...', rel['uup4'],
                                        rel['uup4'], ex['gdown4'])
                    elif k == 'u.u(down)':
                        val = np.einsum('a...,b...,ab...->...', rel['udown4'],
                                        rel['udown4'], ex['gup4'])
                    else:
                        val = np.array(rel[k])
                except Exception as e:
                    common.add_violation(res, f"{k} raises {type(e).__name__}",
                                         {"combo": combo, "err": repr(e)[:200]})
                    continue
                w = want[k]
                if val.shape != w.shape:
                    common.add_violation(res, f"{k} shape", {"got": val.shape})
                    continue
                sc = max(np.abs(w).max(), 1.0 if k.startswith('u.u') else 0.0)
                diff = np.abs(val - w)
                if combo == 'rho_rho0' and k in ('eps', 'enthalpy'):
                    # eps = rho/rho0 - 1 is undefined where rho0 == 0; what is
                    # returned there is judged by C01 (history independence)
                    diff = np.where(fl['rho0'] != 0, diff, 0.0)
                err = diff.max()
                if not err <= TOL * sc + floor_of(k):
                    common.add_violation(res, f"{k} [{combo}]", {
                        "order": oname, "max_err": float(err), "scale": float(sc),
                        "vmax": spec['vmax'], "gauge": gclass(spec['member']),
                        "geometry_given_as": spec.get('geom', 'tensor')})
                elif sc > 0:
                    res['nontrivial'].append([k, combo, gclass(spec['member']), oname])
            # second pass: every cached value must still be what was handed out
            for k in keys:
                if k.startswith('u.u') or k not in rel.data:
                    continue
                res['observations'] += 1
                w = want[k]
                val = np.asarray(rel[k])
                if val.shape == w.shape and np.abs(val - w).max() > TOL * max(np.abs(w).max(), 1e-300) + floor_of(k):
                    common.add_violation(res, f"{k} changed in the cache after later requests [{combo}]",
                                         {"order": oname})
        del rel
    # every key asked FIRST on its own fresh instance (a shortcut that looks at
    # what happens to be cached is decided at that moment)
    solo = ['Ttrace', 'st_Ricci_down3'] + [k for k in FLUID_KEYS if k in want and not k.startswith('u.u')]
    if combo != 'Tdown4':
        # without Tdown4 in the cache st_Ricci_down4 is (by design) the geometric
        # Ricci tensor, which random matter does not source
        solo = [k for k in solo if k != 'st_Ricci_down4']
    for k in solo:
        rel = harness.make_rel(fd, inputs_for(spec, ex, fl, combo), Lambda=spec['Lambda'],
                               clear_cache_every_nbr_calc=10**9, memory_threshold_inGB=1e9)
        res['observations'] += 1
        try:
            with common.Quiet():
                val = np.array(rel[k])
        except Exception as e:
            common.add_violation(res, f"{k} raises {type(e).__name__}",
                                 {"combo": combo, "err": repr(e)[:200], "order": "asked first"})
            continue
        w = want[k]
        diff = np.abs(val - w) if val.shape == w.shape else np.array(np.inf)
        if combo == 'rho_rho0' and k in ('eps', 'enthalpy'):
            diff = np.where(fl['rho0'] != 0, diff, 0.0)
        if not diff.max() <= TOL * np.abs(w).max() + floor_of(k):
            common.add_violation(res, f"{k} [{combo}]", {
                "order": "asked first on a fresh instance", "max_err": float(diff.max()),
                "gauge": gclass(spec['member']), "geometry_given_as": spec.get('geom', 'tensor')})
        del rel
    return res
