"""C06 - constraints vanish and dt-quantities equal true t-derivatives."""
import numpy as np

from lib import common, engine, harness, spacetimes as S
from props import c04

LEVEL = "exploration"
RULE = ("case = (spacetime member with T := (G + Lambda g)/kappa supplied as "
        "Tdown4, or a vacuum member with vacuum=True, fd_order, grid mode, N, "
        "Lambda); observations: Hamiltonian, Momentumup3/down3 against 0 and "
        "the six dt-quantities against 8th-order-in-t derivatives of the "
        "exact fields, per component, convergence rule with the scale set by "
        "the largest individual term; non-trivial = distinct (member class, "
        "mode, order, quantity, vacuum flag, Lambda sign) with a reached verdict")
ASSUMPTIONS = c04.ASSUMPTIONS + ["exact t-derivatives: 8th-order centred differences in t of the exact fields, h_t=0.02 (truncation < 1e-13)"]
TIMEOUT = {"quick": 1500, "thorough": 7000}
MIN_NONTRIVIAL = {"quick": 40, "thorough": 120}

CONSTRAINTS = ['Hamiltonian', 'Momentumup3', 'Momentumdown3']
DT = {'dtKtrace': 'Ktrace', 'dtphi_bssnok': 'phi_bssnok',
      'dtgammaup3': 'gammaup3', 'dtgammadown3_bssnok': 'gammadown3_bssnok',
      'dtAdown3_bssnok': 'Adown3_bssnok', 'dts_Gamma_bssnok': 's_Gamma_bssnok'}


def cases(tier, sd):
    return c04.cases(tier, sd + 17)


def _run_case(spec):
    res = common.new_result(spec)
    grids, _ = engine.grid_plan(spec)
    st = S.member(spec['member'])
    vals = []
    keys = CONSTRAINTS + list(DT)
    # request order varies from case to case (constraints after the BSSNOK
    # quantities and the other way round)
    rng = np.random.default_rng([int(spec['member']['seed']), spec['order'], 6])
    keys = [keys[i] for i in rng.permutation(len(keys))]
    # intermediates cached beforehand switch the cache-state arms on the way to
    # the constraints (e.g. s_Ricci_down3 from a cached s_Riemann_down3); they
    # are requested, not judged here (C04/C05 judge them)
    pre = [[], ['s_Riemann_down3'], ['st_Riemann_down4'], ['s_RicciS', 'Tdown4'],
           ['A2', 'Aup3'], ['gup4', 'gdet'], ['rho_n', 'fluxup3_n'],
           ['Aup3_bssnok', 's_Gamma_udd3']][int(rng.integers(8))]
    if spec.get('components') and rng.random() < 0.6:
        # inputs given component by component and a constraint asked first:
        # nothing has assembled the tensors (betaup3, gammadown3, ...) yet
        first = ['Hamiltonian', 'Momentumup3', 'Momentumdown3'][int(rng.integers(3))]
        keys = [first] + [k for k in keys if k != first]
        pre = []
    for g in grids:
        ex, rel = c04.evaluate(spec, g, [])
        x, y, z = harness.coords(g['n'], g['lo'], g['d'])
        dts = S.exact_dt(st, list(DT.values()), spec['t0'], x, y, z,
                         Lam=spec['Lambda'])
        exd = {k: dts[v] for k, v in DT.items()}
        shp = x.shape
        exd['Hamiltonian'] = np.zeros(shp)
        exd['Momentumup3'] = np.zeros((3,) + shp)
        exd['Momentumdown3'] = np.zeros((3,) + shp)
        exd['_ex'] = ex
        vals.append((exd, engine.eval_keys(rel, pre + keys)))
        del rel
    ex = vals[1][0]['_ex']
    kap = 8 * np.pi
    K = np.abs(ex['Kdown3']).max()
    G3 = np.abs(ex['s_Gamma_udd3']).max()
    hH = float(np.abs(ex['s_RicciS']).max() + np.abs(ex['Ktrace']).max() ** 2
               + 2 * kap * np.abs(ex['rho_n']).max() + 2 * abs(spec['Lambda'])
               + G3 ** 2)
    hM = float(K * (G3 + 1) + kap * np.abs(ex['fluxup3_n']).max())
    hints = {'Hamiltonian': hH, 'Momentumup3': hM, 'Momentumdown3': hM}
    for k in DT:
        hints[k] = float(K + np.abs(ex['dbetaup3']).max() + hH * 0.1)
    lam = spec['Lambda']
    engine.compare(res, spec, vals, keys,
                   tags=[c04.mclass(spec['member']), spec['mode'], spec['order'],
                         'vac' if spec['vacuum'] else 'T',
                         'L0' if lam == 0 else ('L+' if lam > 0 else 'L-'),
                         'pre:' + '+'.join(pre)],
                   scale_hints=hints, by_class=False)
    return res


def run_case(spec):
    return engine.refine_if_marginal(_run_case, spec, _run_case(spec))
