"""C14 - over_time equals independent per-step computation, correctly ordered."""
import copy
import numpy as np

from lib import common, harness, history as H, spacetimes as S
from props.c02 import same

LEVEL = "exploration"
RULE = ("case = (periodic spacetime member sampled at 1..5 distinct times in "
        "shuffled row order, temporal key name in {it, iteration, t, time}, "
        "tensor and scalar input columns, list of vars mixing built-in names "
        "and custom functions, built-in and custom estimates, AurelCore "
        "kwargs, a random partition of the vars over 1..3 successive calls). "
        "Oracles: (1) rows sorted by the temporal key with every column "
        "permuted together and input columns value-preserved; (2) every stored "
        "value equals a fresh AurelCore on that step's inputs alone; (3) every "
        "estimate column equals an independent numpy estimator of the 3-D "
        "array and exists for every 3-D column; (4) the final table is the "
        "same for every split of the request list; differences above "
        "round-off are accepted only if they shrink like the discretisation "
        "error on a doubled grid. non-trivial = distinct (split pattern, var "
        "kinds, row-order class, temporal key, #steps)")
ASSUMPTIONS = ["per-step oracle: fresh eviction-free AurelCore with that row's inputs only",
               "independent numpy re-implementation of the built-in estimators"]
TIMEOUT = {"quick": 1800, "thorough": 7000}
MIN_NONTRIVIAL = {"quick": 30, "thorough": 150}

BUILTIN = ['Ktrace', 'Hamiltonian', 's_RicciS', 'st_Riemann_down4', 'st_Weyl_down4',
           'Momentumup3', 'gdet', 'st_RicciS', 'rho_n', 'st_Ricci_down3', 'theta',
           'Kretschmann', 'eweyl_n_down3', 'dtKtrace', 'gtt', 'null_ray_exp_out',
           'null_ray_exp_in']
EST = {'max': np.max, 'mean': np.mean, 'min': np.min, 'sum': np.sum,
       'median': lambda a: np.percentile(a, 50), 'std': np.std,
       'maxabs': lambda a: np.max(np.abs(a)), 'x0y0z0': lambda a: a[0, 0, 0],
       'x1y0z1': lambda a: a[-1, 0, -1], 'quartile3': lambda a: np.percentile(a, 75),
       'varabs': lambda a: np.var(np.abs(a)), 'x0y1z0': lambda a: a[0, -1, 0]}


def cust_a(rel):
    return rel['Ktrace'] ** 2 - rel['alpha']


def cust_b(rel):
    return rel['s_RicciS'] + rel['gammadet']


def cust_t(rel):
    return rel['Kdown3'] * rel['alpha']


def cust_other(rel):
    return rel['alpha'] * 0 + 123.0


def my_est(a):
    return float(np.mean(a ** 2))


def my_est2(a):
    return float(np.max(a) - np.min(a))


def my_est3(a):
    return float(a[1, 0, -1] * 3.0)


CUSTOM = {'cust_a': cust_a, 'cust_b': cust_b, 'cust_t': cust_t}


def custom_est_names(spec):
    if not spec['custom_est']:
        return []
    return ['my_est', 'my_est2', 'my_est3'] if spec['seed'] % 2 else ['my_est']


def cases(tier, sd):
    rng = np.random.default_rng([int(sd), 14])
    n = 40 if tier == "quick" else 800
    out = []
    for i in range(n):
        steps = int(rng.integers(1, 6))
        nv = int(rng.integers(1, 6))
        names = [str(v) for v in rng.choice(BUILTIN + list(CUSTOM), nv, replace=False)]
        nsplit = int(rng.integers(1, min(3, nv) + 1))
        cuts = sorted(int(v) for v in rng.choice(np.arange(1, nv), nsplit - 1, replace=False)) if nv > 1 else []
        out.append(dict(
            member=dict(family=S.ADMTrig.name, seed=int(rng.integers(1 << 20)), period=2.0),
            steps=steps, order=[int(v) for v in rng.permutation(steps)],
            tkey=str(rng.choice(['it', 'iteration', 't', 'time'])),
            names=names, cuts=cuts,
            est=[str(v) for v in rng.choice(list(EST), int(rng.integers(0, 4)), replace=False)],
            custom_est=bool(rng.random() < 0.4),
            est_each_call=bool(rng.random() < 0.5),
            Lambda=float(rng.choice([0.0, 0.2])), every=int(rng.choice([1, 3, 20])),
            components=bool(rng.random() < 0.3),
            center=([float(v) for v in rng.uniform(-0.3, 0.3, 3)] if rng.random() < 0.5 else None),
            n1=int(rng.choice([6, 7])), fd_order=int(rng.choice([2, 4])),
            seed=int(rng.integers(1 << 30))))
    return out


def build_table(spec, n):
    lo, L = -1.0, 2.0
    d = L / n
    st = S.member(spec['member'])
    x, y, z = harness.coords(n, lo, d)
    times = [0.1 + 0.37 * k for k in range(spec['steps'])]
    tvals = [int(10 * (k + 1)) if spec['tkey'] in ('it', 'iteration') else t
             for k, t in enumerate(times)]
    if spec['tkey'] in ('t', 'time') and spec['seed'] % 3 == 0:
        # hand-typed times: integers and floats mixed, earliest one an integer
        tvals = [1] + [1.5 + 0.75 * k for k in range(1, len(times))]
    rows = []
    for t in times:
        ex = S.exact_fields(st, t, x, y, z, Lam=spec['Lambda'])
        row = {'alpha': ex['alpha'], 'betaup3': ex['betaup3'], 'Tdown4': ex['Tdown4'],
               'dtalpha': ex['dtalpha'], 'dtbetaup3': ex['dtbetaup3']}
        if spec['components']:
            ij = [(0, 0), (0, 1), (0, 2), (1, 1), (1, 2), (2, 2)]
            for nm, (i, j) in zip(['gxx', 'gxy', 'gxz', 'gyy', 'gyz', 'gzz'], ij):
                row[nm] = ex['gammadown3'][i, j]
            for nm, (i, j) in zip(['kxx', 'kxy', 'kxz', 'kyy', 'kyz', 'kzz'], ij):
                row[nm] = ex['Kdown3'][i, j]
        else:
            row['gammadown3'] = ex['gammadown3']
            row['Kdown3'] = ex['Kdown3']
        rows.append(row)
    order = spec['order']
    data = {spec['tkey']: [tvals[k] for k in order]}
    for key in rows[0]:
        data[key] = [np.array(rows[k][key], copy=True) for k in order]
    fd = harness.make_fd(n, lo, d, order=spec['fd_order'], boundary='periodic')
    return fd, data, rows, tvals


def var_list(names):
    return [({nm: CUSTOM[nm]} if nm in CUSTOM else nm) for nm in names]


def run_scenario(spec, n):
    """Returns (tables per split mode, per-step oracle, inputs by tval)."""
    from aurel import time as atime
    fd, data, rows, tvals = build_table(spec, n)
    kw = dict(Lambda=spec['Lambda'], clear_cache_every_nbr_calc=spec['every'])
    if spec.get('center'):
        kw['center'] = tuple(spec['center'])
    grid0 = [fd.xarray.copy(), fd.cartesian_coords.copy(), fd.r.copy()]
    est = list(spec['est']) + ([{'my_est': my_est}] if spec['custom_est'] else [])
    if spec['custom_est'] and spec['seed'] % 2:
        # several custom estimators, in one dict and in a dict of their own
        est = list(spec['est']) + [{'my_est': my_est, 'my_est2': my_est2}, {'my_est3': my_est3}]
    names = spec['names']
    modes = {'single': [names]}
    if spec['cuts']:
        parts, prev = [], 0
        for c in spec['cuts'] + [len(names)]:
            parts.append(names[prev:c])
            prev = c
        modes['split'] = parts
    tables = {}
    snap = copy.deepcopy(data)
    for mode, parts in modes.items():
        cur = {k: list(v) for k, v in data.items()}
        with common.Quiet():
            for pi, part in enumerate(parts):
                last = pi == len(parts) - 1
                e = est if (spec['est_each_call'] or last) else []
                vl = var_list(part)
                done = [nm for prev in parts[:pi] for nm in prev if nm in CUSTOM]
                if done and any(isinstance(v, dict) for v in vl):
                    # a later call passes ONE dict holding a new custom variable
                    # together with one that is already a column (under another
                    # function): the existing column must stay as it is
                    for v in vl:
                        if isinstance(v, dict):
                            v[done[0]] = cust_other
                            break
                cur = atime.over_time(cur, fd, vars=vl, estimates=list(e),
                                      verbose=False, **kw)
        tables[mode] = cur
    if est and len(names) >= 2:
        # estimates in the first call, none in the second, then a call without
        # variables that only asks for the estimates: every scalar column must
        # end up with every estimate, as in the single call
        h = len(names) // 2
        cur = {k: list(v) for k, v in data.items()}
        with common.Quiet():
            cur = atime.over_time(cur, fd, vars=var_list(names[:h]), estimates=list(est),
                                  verbose=False, **kw)
            cur = atime.over_time(cur, fd, vars=var_list(names[h:]), estimates=[],
                                  verbose=False, **kw)
            cur = atime.over_time(cur, fd, vars=[], estimates=list(est), verbose=False, **kw)
        tables['catchup'] = cur
    # a later call whose list repeats names that are already columns, two of
    # them in a row (an input column and a computed one): nothing is recomputed
    # from defaults, nothing overwritten
    inputs_present = [k for k in ('alpha', 'Tdown4', 'dtalpha') if k in tables['single']]
    rep = inputs_present[:2] + [names[0]] + inputs_present[2:] + ['gdet']
    with common.Quiet():
        again = atime.over_time(tables['single'], fd, vars=var_list([r_ for r_ in rep if r_ not in CUSTOM]),
                                estimates=[], verbose=False, **kw)
    tables['_repeat'] = (again, [r_ for r_ in rep if r_ not in CUSTOM])
    # one more call on the finished table: ONE dict holding an existing column
    # name (under another function) and a brand-new name
    exist = spec['names'][0]
    with common.Quiet():
        app = atime.over_time(tables['single'], fd,
                              vars=[{exist: cust_other, 'brand_new': cust_a}],
                              estimates=list(est), verbose=False, **kw)
    tables['_append'] = (app, exist)
    untouched = same(data, snap) and all(np.array_equal(a, b) for a, b in zip(
        grid0, [fd.xarray, fd.cartesian_coords, fd.r]))
    # per-step oracle
    oracle = {}
    for k, tv in enumerate(tvals):
        vals = {}
        for nm in names:
            fd1 = harness.make_fd(n, -1.0, 2.0 / n, order=spec['fd_order'], boundary='periodic')
            okw = {'center': tuple(spec['center'])} if spec.get('center') else {}
            rel = harness.make_rel(fd1, rows[k], Lambda=spec['Lambda'],
                                   clear_cache_every_nbr_calc=10 ** 9, memory_threshold_inGB=1e9,
                                   **okw)
            with common.Quiet():
                vals[nm] = np.array(CUSTOM[nm](rel) if nm in CUSTOM else rel[nm])
            del rel
        oracle[tv] = vals
    return tables, oracle, rows, tvals, untouched, est


def diffs(spec, n):
    """All comparisons of one scenario: list of (label, err, scale)."""
    tables, oracle, rows, tvals, untouched, est = run_scenario(spec, n)
    out = []
    hard = []
    if not untouched:
        hard.append(("over_time modifies the caller's table or the shared grid object", {}))
    tk = spec['tkey']
    app, exist = tables.pop('_append')
    again, rep = tables.pop('_repeat')
    for nm in rep:
        if nm in tables['single'] and not same(np.asarray(again[nm]), np.asarray(tables['single'][nm])):
            hard.append(("a later call that lists an existing column changed it", {"column": nm, "vars": rep}))
            break
    S0 = tables['single']
    if 'brand_new' not in app:
        hard.append(("later call with a mixed custom dict did not add the new variable", {}))
    elif not same(np.asarray(app[exist]), np.asarray(S0[exist])):
        hard.append(("later call re-evaluated / overwrote an existing column", {"column": exist}))
    else:
        for en in list(spec['est']) + custom_est_names(spec):
            col = f"{exist}_{en}"
            if col in S0 and not same(np.asarray(app[col]), np.asarray(S0[col])):
                hard.append(("later call changed an existing estimate column", {"column": col}))
    for mode, T in tables.items():
        tcol = [T[tk][j] for j in range(len(T[tk]))]
        if [float(v) for v in tcol] != sorted(float(v) for v in tvals):
            hard.append((f"rows not sorted by the temporal key ({mode})",
                         {"got": [float(v) for v in tcol], "want": sorted(tvals)}))
            continue
        for j, tv in enumerate(tcol):
            k = [float(v) for v in tvals].index(float(tv))
            for key, val in rows[k].items():
                if key not in T or not np.array_equal(np.asarray(T[key][j]), val):
                    hard.append((f"input column not preserved / permuted with the rows ({mode})",
                                 {"column": key, "row": j}))
                    break
            for nm in spec['names']:
                if nm not in T:
                    hard.append((f"requested variable missing from the table ({mode})", {"var": nm}))
                    continue
                a, b = np.asarray(T[nm][j]), oracle[tvals[k]][nm]
                if a.shape != b.shape:
                    hard.append((f"stored value has wrong shape ({mode})", {"var": nm}))
                    continue
                out.append((f"{nm} vs per-step oracle ({mode})", float(np.abs(a - b).max()),
                            float(np.abs(b).max())))
        # estimates: every 3-D column must have every estimate, correctly
        names_est = list(spec['est']) + custom_est_names(spec)
        for key in list(T.keys()):
            v0 = np.asarray(T[key][0])
            if v0.ndim != 3:
                continue
            for en in names_est:
                col = f"{key}_{en}"
                if col not in T:
                    hard.append((f"estimate column missing ({mode})", {"column": col}))
                    continue
                f = EST.get(en) or {'my_est': my_est, 'my_est2': my_est2, 'my_est3': my_est3}[en]
                for j in range(len(tcol)):
                    want = f(np.asarray(T[key][j]))
                    got = T[col][j]
                    if not np.isclose(got, want, rtol=1e-12, atol=1e-300):
                        hard.append((f"estimate column wrong ({en})", {"column": col, "row": j,
                                                                      "got": float(got), "want": float(want)}))
                        break
    for smode in ('split', 'catchup'):
        if smode not in tables:
            continue
        A, B = tables['single'], tables[smode]
        if set(A.keys()) != set(B.keys()):
            hard.append((("split calls give" if smode == 'split' else "estimates caught up later give")
                         + " a table with different columns",
                         {"only_single": sorted(set(A) - set(B))[:6],
                          "only_split": sorted(set(B) - set(A))[:6]}))
        else:
            for key in A:
                a, b = np.asarray(A[key]), np.asarray(B[key])
                if a.shape != b.shape:
                    hard.append(("split calls give a column of different shape", {"column": key}))
                elif a.dtype.kind in 'fiuc':
                    out.append((f"{key}: single call vs {smode} calls", float(np.abs(a - b).max()),
                                float(np.abs(a).max())))
    return out, hard


def check_override(spec, res):
    """A custom variable supplied under the name of an input the table lacks
    (rho0) and a built-in that is computed from it (rho = rho0 (1 + eps)): the
    custom value is what the step uses, wherever it stands in the list and
    however the request is split."""
    from aurel import time as atime
    fd, data, rows, tvals = build_table(spec, spec['n1'])
    kw = dict(Lambda=spec['Lambda'], clear_cache_every_nbr_calc=spec['every'])

    def f(rel):
        return 0.5 + rel['alpha'] ** 2

    runs = {}
    with common.Quiet():
        runs['dependent listed first'] = atime.over_time(
            {k: list(v) for k, v in data.items()}, fd, vars=['rho', {'rho0': f}], verbose=False, **kw)
        runs['custom listed first'] = atime.over_time(
            {k: list(v) for k, v in data.items()}, fd, vars=[{'rho0': f}, 'rho'], verbose=False, **kw)
        two = atime.over_time({k: list(v) for k, v in data.items()}, fd, vars=[{'rho0': f}],
                              verbose=False, **kw)
        runs['two calls'] = atime.over_time(two, fd, vars=['rho'], verbose=False, **kw)
    for lab, T in runs.items():
        res['observations'] += 1
        want = 0.5 + np.asarray(T['alpha']) ** 2
        ok = ('rho' in T and 'rho0' in T and np.array_equal(np.asarray(T['rho0']), want)
              and np.allclose(np.asarray(T['rho']), want, rtol=1e-13, atol=0))
        if not ok:
            common.add_violation(res, "built-in computed from a custom variable ignores it "
                                      f"({lab})", {"steps": spec['steps']})
            return
    res['nontrivial'].append(['override', spec['steps'], spec['every']])
    tk = spec['tkey']
    fresh = lambda: {k: list(v) for k, v in data.items()}
    # ---- the same custom estimator NAME with another function in a later call
    fA = lambda a: float(np.max(a))
    fB = lambda a: float(np.min(a) - 7.0)
    with common.Quiet():
        T1 = atime.over_time(fresh(), fd, vars=['gdet'], estimates=[{'myE': fA}], verbose=False, **kw)
        T2 = atime.over_time(T1, fd, vars=['Ktrace'], estimates=[{'myE': fB}], verbose=False, **kw)
    res['observations'] += 1
    want = [fB(np.asarray(a)) for a in T2['Ktrace']]
    if 'Ktrace_myE' not in T2 or not np.allclose(np.asarray(T2['Ktrace_myE'], float), want, rtol=1e-13, atol=0):
        common.add_violation(res, "estimate column wrong (custom estimator passed under a name used before)", {})
        return
    # ---- an input given as one number per step (a homogeneous lapse)
    if 'gammadown3' in data:
        d2 = fresh()
        d2['alpha'] = [1.3 + 0.1 * j for j in range(len(d2[tk]))]
        with common.Quiet():
            T3 = atime.over_time(d2, fd, vars=['gdet', 'gammadet'], verbose=False, **kw)
        res['observations'] += 1
        al = np.asarray(T3['alpha'], float)
        ok = all(np.allclose(np.asarray(T3['gdet'][j]), -al[j] ** 2 * np.asarray(T3['gammadet'][j]),
                             rtol=1e-12, atol=0) for j in range(len(al)))
        if not ok:
            common.add_violation(res, "input given as one number per step is not used (built-in default instead)",
                                 {"input": "alpha"})
            return
    # ---- two rows with the same temporal value (a run and its restart glued together)
    d3 = fresh()
    for k in d3:
        d3[k] = d3[k] + [d3[k][0] if k != 'alpha' else np.asarray(d3[k][0]) + 0.01]
    with common.Quiet():
        T4 = atime.over_time(d3, fd, vars=['Ktrace'], verbose=False, **kw)
    res['observations'] += 1
    n_in = len(d3[tk])
    alphas_in = sorted(float(np.asarray(a).ravel()[0]) for a in d3['alpha'])
    alphas_out = sorted(float(np.asarray(a).ravel()[0]) for a in T4['alpha'])
    if len(T4[tk]) != n_in or alphas_in != alphas_out or len(T4['Ktrace']) != n_in:
        common.add_violation(res, "rows sharing a temporal value are lost / overwrite each other",
                             {"rows_in": n_in, "rows_out": len(T4[tk])})
        return
    res['nontrivial'].append(['override+', spec['steps'], spec['tkey']])


def run_case(spec):
    res = common.new_result(spec)
    try:
        d1, hard = diffs(spec, spec['n1'])
    except Exception as e:
        common.add_violation(res, f"over_time raises {type(e).__name__}",
                             {"err": repr(e)[:300], "names": spec['names'], "cuts": spec['cuts']})
        return res
    for name, det in hard:
        common.add_violation(res, name, dict(det, names=spec['names'], cuts=spec['cuts'],
                                             order=spec['order'], tkey=spec['tkey']))
    res['observations'] += len(d1) + 5
    cand = [(lab, e, s) for lab, e, s in d1 if not (e <= 1e-10 * max(s, 1e-300) or e <= 1e-13)]
    if cand and not hard:
        d2, _ = diffs(spec, 2 * spec['n1'])
        m2 = {lab: (e, s) for lab, e, s in d2}
        p = spec['fd_order']
        need = max(2.0 ** (p - 2), 2.0)
        for lab, e1, s1 in cand:
            e2, s2 = m2.get(lab, (np.inf, 0))
            sc = max(s1, s2, 1e-300)
            if e2 <= 1e-9 * sc or e1 / max(e2, 1e-300) >= need:
                res['monitor']['tier2_accepted'] = res['monitor'].get('tier2_accepted', 0) + 1
            else:
                kind = lab.split(' vs ')[0].split(':')[0]
                what = 'per-step oracle' if 'oracle' in lab else 'split calls'
                common.add_violation(res, f"{kind} differs ({what})",
                                     {"label": lab, "err_N": e1, "err_2N": e2, "scale": sc,
                                      "names": spec['names'], "cuts": spec['cuts']})
    try:
        check_override(spec, res)
    except Exception as e:
        common.add_violation(res, f"over_time raises {type(e).__name__}",
                             {"err": repr(e)[:300], "scenario": "custom variable under an input name"})
    if res['status'] == 'held':
        kinds = ('custom' if any(nm in CUSTOM for nm in spec['names']) else '') + \
                ('builtin' if any(nm in BUILTIN for nm in spec['names']) else '')
        oc = 'sorted' if spec['order'] == sorted(spec['order']) else 'shuffled'
        res['nontrivial'].append([len(spec['cuts']) + 1, kinds, oc, spec['tkey'], spec['steps'],
                                  bool(spec['est']), spec['custom_est']])
    return res
