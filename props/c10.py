"""C10 - Weyl tensor, electric/magnetic parts, scalars and invariants."""
import numpy as np

from lib import common, engine, harness, spacetimes as S
from props import c04

LEVEL = "exploration"
RULE = ("case = (spacetime member, vacuum flag consistent with it, fd_order, "
        "grid mode, N); observations: st_Weyl_down4 in BOTH cache states "
        "(fresh instance -> E/B construction; st_Riemann_down4 requested first "
        "-> Riemann construction), E/B in the normal frame and their u-frame "
        "contractions, Weyl scalars on the returned null tetrad, tetrad "
        "orthonormality (triad w.r.t. gamma off the polar axis; full Lorentz "
        "orthonormality for the fluid tetrad), invariants I and J against a "
        "harness tetrad obtained by a random Lorentz rotation, Levi-Civita "
        "tensors; non-trivial = distinct (member class, vacuum flag, mode, "
        "order, quantity, cache state/tetrad, component class) with non-zero "
        "exact value and a reached verdict")
ASSUMPTIONS = c04.ASSUMPTIONS + [
    "E/B conventions are the documented u-frame contractions with u = n",
    "Weyl scalar definitions as documented (Alcubierre p.295) on the returned tetrad"]
TIMEOUT = {"quick": 1500, "thorough": 7000}
MEM_GB = 4.0
MIN_NONTRIVIAL = {"quick": 60, "thorough": 200}


def cases(tier, sd):
    out = []
    base = c04.cases(tier, sd + 43)
    for i, c in enumerate(base):
        c = dict(c)
        vac_member = c['member']['family'] == S.PulledBack.name
        c['vacuum'] = bool(vac_member and c['vacuum'])
        out.append(c)
    # wave-zone gauge members (alpha=1, beta=0): quasi-Kinnersley is orthonormal
    for k, (p, n1, mode) in enumerate([(4, 17, 'open'), (6, 12, 'periodic')]):
        m = dict(family=S.ADMTrig.name, seed=1000 * sd + 90 + k, shift=0.0,
                 lapse=0.0)
        if mode == 'periodic':
            m['period'] = 2.0
        out.append(dict(member=m, order=p, n1=n1, Lambda=0.0, vacuum=False,
                        box=(-1.0, 2.0), t0=0.3, mode=mode))
    return out


def psis(W, l, k, m, mb):
    c = lambda a, b, cc, d: np.einsum('abcd...,a...,b...,c...,d...->...',
                                      W, a, b, cc, d)
    return [c(k, m, k, m), c(l, k, m, k), c(k, m, mb, l), c(k, l, mb, l),
            c(l, mb, l, mb)]


def inv_IJ(P):
    I = P[0] * P[4] - 4 * P[1] * P[3] + 3 * P[2] ** 2
    J = (P[4] * (P[2] * P[0] - P[1] * P[1])
         - P[3] * (P[3] * P[0] - P[1] * P[2])
         + P[2] * (P[3] * P[1] - P[2] * P[2]))
    return I, J


def null_from(e0, e1, e2, e3):
    s = 1 / np.sqrt(2)
    return (e0 - e1) * s, (e0 + e1) * s, (e2 + 1j * e3) * s, (e2 - 1j * e3) * s


def harness_tetrad(G, nup, rng):
    """Orthonormal tetrad by Gram-Schmidt on the exact metric, then a random
    constant Lorentz transformation (boost + rotation)."""
    shape = G.shape[2:]
    dot = lambda a, b: np.einsum('a...,b...,ab...->...', a, b, G)
    seeds = [np.zeros((4,) + shape) for _ in range(4)]
    for i in range(4):
        seeds[i][i] = 1.0
    seeds[0] = nup          # d_t itself need not be timelike (large shift)
    e = []
    for i, v in enumerate(seeds):
        w = v.copy()
        for j, ej in enumerate(e):
            sgn = -1.0 if j == 0 else 1.0
            w = w - sgn * dot(ej, w) * ej
        nrm = np.sqrt(np.abs(dot(w, w)))
        e.append(w / nrm)
    # random Lorentz matrix L (eta-orthogonal): boost then rotation
    v = rng.uniform(-0.4, 0.4, 3)
    g = 1 / np.sqrt(1 - v @ v)
    B = np.eye(4)
    B[0, 0] = g
    B[0, 1:] = B[1:, 0] = g * v
    B[1:, 1:] += (g - 1) * np.outer(v, v) / (v @ v)
    Q, _ = np.linalg.qr(rng.normal(size=(3, 3)))
    if np.linalg.det(Q) < 0:
        Q[:, 0] *= -1
    R = np.eye(4)
    R[1:, 1:] = Q
    L = R @ B
    E = np.array(e)                                   # [a(tetrad), mu, ...]
    return [np.einsum('b,bm...->m...', L[a], E) for a in range(4)]


def _run_case(spec):
    res = common.new_result(spec)
    grids, _ = engine.grid_plan(spec)
    vals = []
    rng = np.random.default_rng([int(spec['member']['seed']), 77])
    lor_seed = int(rng.integers(1 << 30))
    for gi, g in enumerate(grids):
        ex, relA = c04.evaluate(spec, g, [])
        x, y, z = harness.coords(g['n'], g['lo'], g['d'])
        code, exd = {}, {}
        W = ex['st_Weyl_down4']
        # --- cache state 1: fresh -> E/B construction
        code.update(engine.eval_keys(relA, ['st_Weyl_down4']))
        code['st_Weyl_down4#fresh'] = code.pop('st_Weyl_down4')
        exd['st_Weyl_down4#fresh'] = W
        res['monitor']['weyl_arm_EB'] = res['monitor'].get('weyl_arm_EB', 0) + int('st_Riemann_down4' not in relA.data)
        # --- cache state 2: Riemann cached first
        _, relB = c04.evaluate(spec, g, [])
        r0 = engine.eval_keys(relB, ['st_Riemann_down4'])['st_Riemann_down4']
        code.update(engine.eval_keys(relB, ['st_Weyl_down4']))
        code['st_Weyl_down4#riemann_cached'] = code.pop('st_Weyl_down4')
        exd['st_Weyl_down4#riemann_cached'] = W
        res['monitor']['weyl_arm_Riemann'] = res['monitor'].get('weyl_arm_Riemann', 0) + 1
        keys = ['eweyl_n_down3', 'bweyl_n_down3', 'eweyl_u_down4',
                'bweyl_u_down4']
        code.update(engine.eval_keys(relB, keys))
        # the Riemann tensor handed out before must still be the cached one
        if isinstance(r0, np.ndarray) and 'st_Riemann_down4' in relB.data:
            res['observations'] += 1
            with common.Quiet():
                r1 = np.asarray(relB['st_Riemann_down4'])
            if not np.array_equal(r0, r1):
                common.add_violation(res, "st_Riemann_down4 changed after st_Weyl_down4 was requested",
                                     {"max_diff": float(np.abs(r0 - r1).max())})
        exd['eweyl_n_down3'] = ex['eweyl_n_down3']
        exd['bweyl_n_down3'] = ex['bweyl_n_down3']
        exd['eweyl_u_down4'] = ex['eweyl_n_down4']
        exd['bweyl_u_down4'] = ex['bweyl_n_down4']
        # --- a fluid moving through the slices: the u-frame parts are the same
        # contractions of the exact Weyl tensor with u = W (n + v)
        _, relC = c04.evaluate(spec, g, [])
        v = np.array([0.30 * np.sin(np.pi * x) * np.cos(np.pi * y),
                      0.20 * np.cos(np.pi * z) + 0.1,
                      -0.25 * np.sin(np.pi * (x + y))])
        v = v / (1.0 + np.sqrt(np.abs(ex['gammadown3']).max()))
        Wl = 1 / np.sqrt(1 - np.einsum('i...,j...,ij...->...', v, v, ex['gammadown3']))
        relC.data.update(velx=v[0].copy(), vely=v[1].copy(), velz=v[2].copy(), w_lorentz=Wl.copy())
        tk = engine.eval_keys(relC, ['eweyl_u_down4', 'bweyl_u_down4'])
        code['eweyl_u_down4#tilted'] = tk['eweyl_u_down4']
        code['bweyl_u_down4#tilted'] = tk['bweyl_u_down4']
        uu = Wl * (ex['nup4'] + np.concatenate([np.zeros((1,) + x.shape), v]))
        LCd = S.LC4.reshape(S.LC4.shape + (1, 1, 1)) * np.sqrt(-ex['gdet'])
        LCuudd = np.einsum('ac...,bd...,abef...->cdef...', ex['gup4'], ex['gup4'], LCd)
        exd['eweyl_u_down4#tilted'] = np.einsum('b...,d...,abcd...->ac...', uu, uu, W)
        exd['bweyl_u_down4#tilted'] = 0.5 * np.einsum('b...,f...,abcd...,cdef...->ae...',
                                                    uu, uu, W, LCuudd)
        # --- tetrads and scalars, both tetrad choices
        for tname, tet in (("qK", "quasi-Kinnersley"), ("fluid", "fluid")):
            _, relT = c04.evaluate(spec, g, [], rel_kw=dict(tetrad=tet))
            try:
                with common.Quiet():
                    e = [np.array(v) for v in relT.tetrad_base()]
                    nv = [np.array(v) for v in relT.null_vector_base()]
                    P = [np.array(v) for v in relT['Weyl_Psi']]
                    inv = {k: np.array(v) for k, v in
                           relT['Weyl_invariants'].items()}
            except Exception as err:
                common.add_violation(res, f"tetrad/{tname} raises",
                                     {"error": repr(err)[:300]})
                continue
            l, k, m, mb = nv
            ln, kn, mn, mbn = null_from(*e)
            res['observations'] += 1
            if max(np.abs(l - ln).max(), np.abs(k - kn).max(),
                   np.abs(m - mn).max(), np.abs(mb - mbn).max()) > 1e-12:
                common.add_violation(res, f"null_vector_base/{tname}", {})
            # orthonormality
            if gi == 0:
                off_axis = (x * x + y * y) > (0.6 * np.max(g['d'])) ** 2
                gam, G = ex['gammadown3'], ex['gdown4']
                if tname == "qK":
                    tri = [v[1:] for v in e[1:]]
                    worst = 0.0
                    for a in range(3):
                        for b in range(3):
                            ip = np.einsum('i...,j...,ij...->...', tri[a],
                                           tri[b], gam)
                            worst = max(worst, np.abs(ip - (a == b))[off_axis].max())
                    res['observations'] += 1
                    if worst > 1e-10:
                        common.add_violation(res, "tetrad_base/qK triad not orthonormal",
                                             {"worst": worst})
                    else:
                        res['nontrivial'].append([c04.mclass(spec['member']), 'triad-orthonormal'])
                else:
                    eta = np.diag([-1.0, 1, 1, 1])
                    worst = 0.0
                    for a in range(4):
                        for b in range(4):
                            ip = np.einsum('a...,b...,ab...->...', e[a], e[b], G)
                            worst = max(worst, np.abs(ip - eta[a, b]).max())
                    res['observations'] += 1
                    if worst > 1e-10:
                        common.add_violation(res, "tetrad_base/fluid not Lorentz-orthonormal",
                                             {"worst": worst})
                    else:
                        res['nontrivial'].append([c04.mclass(spec['member']), 'fluid-orthonormal'])
            # scalars = components of the exact Weyl on the RETURNED tetrad
            Pex = psis(W, l, k, m, mb)
            for i in range(5):
                code[f'Weyl_Psi{i}/{tname}'] = np.array([P[i].real, P[i].imag])
                exd[f'Weyl_Psi{i}/{tname}'] = np.array([Pex[i].real, Pex[i].imag])
            # invariants: tetrad independent when the tetrad is orthonormal
            wave_zone = (spec['member'].get('shift') == 0.0
                         and spec['member'].get('lapse') == 0.0)
            if tname == "fluid" or wave_zone:
                ht = harness_tetrad(ex['gdown4'], ex['nup4'],
                                    np.random.default_rng(lor_seed))
                Ih, Jh = inv_IJ(psis(W, *null_from(*ht)))
                # the quasi-Kinnersley triad degenerates on the polar axis
                keep = ((x * x + y * y) > (0.6 * np.max(g['d'])) ** 2
                        if tname == "qK" else np.ones(x.shape, bool))
                for nm, val, ref in (('I', inv['I'], Ih), ('J', inv['J'], Jh)):
                    code[f'inv_{nm}/{tname}'] = np.array(
                        [val.real * keep, val.imag * keep])
                    exd[f'inv_{nm}/{tname}'] = np.array(
                        [ref.real * keep, ref.imag * keep])
            del relT
        # --- Levi-Civita tensors
        with common.Quiet():
            code['levicivita_down4'] = np.array(relB.levicivita_down4())
            code['levicivita_down3'] = np.array(relB.levicivita_down3())
        shp = x.shape
        exd['levicivita_down4'] = (S.LC4.reshape(S.LC4.shape + (1, 1, 1))
                                   * np.sqrt(-ex['gdet']))
        exd['levicivita_down3'] = (S.LC3.reshape(S.LC3.shape + (1, 1, 1))
                                   * np.sqrt(ex['gammadet']))
        exd['_ex'] = ex
        vals.append((exd, code))
        del relA, relB, relC
    ex = vals[1][0]['_ex']
    hint = float(np.abs(ex['st_Gamma_udd4']).max() ** 2
                 + np.abs(ex['s_Riemann_down3']).max()
                 + np.abs(ex['st_Riemann_down4']).max())
    keys = [k for k in vals[0][1] if not k.startswith('levicivita')]
    hints = {k: (hint ** 2 if k.startswith('inv_I') else
                 hint ** 3 if k.startswith('inv_J') else hint) for k in keys}
    engine.compare(res, spec, vals, keys,
                   algebraic=['levicivita_down4', 'levicivita_down3'],
                   tags=[c04.mclass(spec['member']),
                         'vac' if spec['vacuum'] else 'nonvac', spec['mode'],
                         spec['order']],
                   scale_hints=hints)
    return res


def run_case(spec):
    return engine.refine_if_marginal(_run_case, spec, _run_case(spec))
