"""C08 - pointwise tensor algebra identities hold to round-off."""
import itertools
import numpy as np

from lib import common, harness, spacetimes as S

LEVEL = "exploration"
RULE = ("four case kinds: (maths) determinant3/4, inverse3/4, format_rank2_*, "
        "(anti)symmetrise on random symmetric matrices of classes "
        "{diagonal, sheared, badly scaled, near-singular cond<=1e8} x shapes "
        "(non-cubic, 1-point axes) x dtypes x array/list-of-components input, "
        "vs numpy.linalg with tolerance max(1e4*eps*cond, 100*eps*cond^2); (keys) algebraic "
        "AurelCore keys on random lapse>0, shift, SPD metric, symmetric K "
        "given as tensors or as components, vs numpy.linalg and the defining "
        "identities; (safe_division) every pair of operand kinds {python "
        "int/float/bool/complex, numpy scalars, 0-d, n-d of 8 dtypes} x "
        "broadcast shapes with the floating-point trap armed; (populate) "
        "populate_4Riemann vs an independent placement + exact symmetries. "
        "non-trivial = distinct (function/key, input class, dtype/shape class)")
ASSUMPTIONS = ["numpy.linalg.inv/det/cond as reference", "tolerance c*eps*cond with c=1e4"]
TIMEOUT = {"quick": 900, "thorough": 3000}
MIN_NONTRIVIAL = {"quick": 150, "thorough": 400}

CLASSES = ['diagonal', 'sheared', 'badly_scaled', 'near_singular']
SHAPES = [(4, 3, 5), (1, 1, 1), (5, 1, 3), (2, 6, 1), (7,), ()]


def random_sym(rng, n, cls, shape, lorentz=False):
    """Random symmetric n x n matrix field (SPD, or Lorentzian if lorentz)."""
    pts = int(np.prod(shape)) if shape else 1
    out = np.zeros((n, n, pts))
    for p in range(pts):
        ev = rng.uniform(0.5, 2.0, n)
        if cls == 'badly_scaled':
            ev = 10.0 ** rng.uniform(-2, 2, n)
        if cls == 'near_singular':
            ev[0] = 10.0 ** rng.uniform(-4.5, -3.5)
        if lorentz:
            ev[0] = -abs(ev[0])
        if cls == 'diagonal':
            M = np.diag(ev)
        else:
            Q, _ = np.linalg.qr(rng.normal(size=(n, n)))
            M = Q @ np.diag(ev) @ Q.T
            M = 0.5 * (M + M.T)
        out[:, :, p] = M
    return out.reshape((n, n) + tuple(shape))


def cases(tier, sd):
    out = []
    nrep = 2 if tier == "quick" else 40
    for r in range(nrep):
        for cls in CLASSES:
            for si, shp in enumerate(SHAPES):
                for dt in (['float64', 'float32'] if si < 2 else ['float64']):
                    out.append(dict(kind='maths', cls=cls, shape=list(shp),
                                    dtype=dt, seed=10000 * sd + 100 * r + si))
    nk = 4 if tier == "quick" else 80
    for r in range(nk):
        for cls in CLASSES[:3]:
            out.append(dict(kind='keys', cls=cls, seed=10000 * sd + r,
                            shape=[[4, 3, 5], [3, 1, 2], [1, 1, 1], [2, 5, 3]][r % 4],
                            components=bool(r % 2)))
    out.append(dict(kind='safe_division', seed=sd))
    for r in range(2 if tier == "quick" else 20):
        out.append(dict(kind='curvsym', seed=100 * sd + r,
                        variant=[dict(), dict(shear=0.4)][r % 2]))
    for r in range(2 if tier == "quick" else 30):
        out.append(dict(kind='populate', seed=100 * sd + r))
    return out


def ctol(eps, cond):
    """closed-form cofactor inverses lose up to cond^2 (they are not backward
    stable); well-conditioned inputs keep a tight 1e4*eps*cond bound."""
    return max(1e4 * eps * cond, 100 * eps * cond * cond)


def moved(M):
    return np.moveaxis(M, (0, 1), (-2, -1))


def check_close(res, label, tags, got, want, tol, scale=None):
    res['observations'] += 1
    got, want = np.asarray(got), np.asarray(want)
    if got.shape != want.shape:
        common.add_violation(res, f"{label} shape", {"got": got.shape,
                                                     "want": want.shape, "tags": tags})
        return False
    if not np.all(np.isfinite(got)):
        common.add_violation(res, f"{label} non-finite", {"tags": tags})
        return False
    sc = np.abs(want).max() if scale is None else scale
    err = np.abs(got - want).max() if got.size else 0.0
    if not err <= tol * max(sc, 1e-300) + 1e-300:
        common.add_violation(res, label, {"max_err": float(err),
                                          "scale": float(sc), "tol": tol,
                                          "tags": tags})
        return False
    res['nontrivial'].append([label] + list(tags))
    return True


def run_maths(spec, res):
    from aurel import maths
    rng = np.random.default_rng([int(spec['seed']), 8])
    shp = tuple(spec['shape'])
    dt = np.dtype(spec['dtype'])
    eps = np.finfo(dt).eps
    tags = [spec['cls'], spec['dtype'], 'x'.join(map(str, shp)) or '0d']
    for n, det, inv, fmt in ((3, maths.determinant3, maths.inverse3, maths.format_rank2_3),
                             (4, maths.determinant4, maths.inverse4, maths.format_rank2_4)):
        M = random_sym(rng, n, spec['cls'], shp, lorentz=(n == 4)).astype(dt)
        M64 = M.astype(np.float64)
        cond = np.linalg.cond(moved(M64)).max() if M64.size else 1.0
        tol = ctol(eps, cond)
        idx = [(i, j) for i in range(n) for j in range(i, n)]
        comps = [M[i, j] for i, j in idx]
        refdet = np.linalg.det(moved(M64))
        refinv = np.moveaxis(np.linalg.inv(moved(M64)), (-2, -1), (0, 1))
        for form, arg in (('array', M), ('list', comps)):
            t = tags + [form]
            with np.errstate(all='raise'):
                try:
                    d = det(arg)
                    iv = inv(arg)
                    fm = fmt(arg)
                except FloatingPointError as e:
                    common.add_violation(res, f"maths n={n} FP exception",
                                         {"err": repr(e), "tags": t})
                    continue
            check_close(res, f"determinant{n}", t, d, refdet, tol)
            check_close(res, f"inverse{n}", t, iv, refinv, tol)
            res['observations'] += 1
            if not np.array_equal(np.asarray(fm), M):
                common.add_violation(res, f"format_rank2_{n}", {"tags": t})
            else:
                res['nontrivial'].append([f"format_rank2_{n}"] + t)
            # inverse times matrix is the identity
            prod = np.einsum('ij...,jk...->ik...', np.asarray(iv, np.float64), M64)
            eye = np.zeros_like(prod)
            for i in range(n):
                eye[i, i] = 1
            check_close(res, f"inverse{n}*M=1", t, prod, eye, tol, scale=1.0)
        # (anti)symmetrise on a general (non-symmetric) tensor
        T = rng.normal(size=(n, n) + shp).astype(dt)
        sy, an = maths.symmetrise_tensor(T), maths.antisymmetrise_tensor(T)
        Tt = np.einsum('ab...->ba...', T)
        check_close(res, "symmetrise_tensor", tags, sy, 0.5 * (T + Tt), 4 * eps)
        check_close(res, "antisymmetrise_tensor", tags, an, 0.5 * (T - Tt), 4 * eps)
        check_close(res, "sym+antisym=id", tags, sy + an, T, 4 * eps)


def run_keys(spec, res):
    rng = np.random.default_rng([int(spec['seed']), 9])
    n = tuple(spec['shape'])
    gam = random_sym(rng, 3, spec['cls'], n)
    K = random_sym(rng, 3, 'sheared', n) * rng.choice([-1, 1])
    al = rng.uniform(0.3, 2.5, n)
    be = rng.normal(size=(3,) + n) * 0.4
    cond = np.linalg.cond(moved(gam)).max()
    eps = np.finfo(float).eps
    tol = ctol(eps, cond)
    fd = harness.make_fd(n, (-1.0, -0.5, 0.3), (0.3, 0.2, 0.1))
    partial = bool(spec['components'] and spec['seed'] % 4 == 3)
    if partial:
        be[0] = 0.0           # beta^x vanishes and is simply not supplied
    if spec['components']:
        names = ['gxx', 'gxy', 'gxz', 'gyy', 'gyz', 'gzz']
        knames = ['kxx', 'kxy', 'kxz', 'kyy', 'kyz', 'kzz']
        ij = [(0, 0), (0, 1), (0, 2), (1, 1), (1, 2), (2, 2)]
        inp = {nm: gam[i, j] for nm, (i, j) in zip(names, ij)}
        inp.update({nm: K[i, j] for nm, (i, j) in zip(knames, ij)})
        inp.update(alpha=al, betay=be[1], betaz=be[2])
        if not partial:
            inp['betax'] = be[0]
    else:
        inp = dict(gammadown3=gam, Kdown3=K, alpha=al, betaup3=be)
    tags = [spec['cls'], ('components-without-betax' if partial else 'components') if spec['components'] else 'tensors',
            'x'.join(map(str, n))]
    rel = harness.make_rel(fd, inp, clear_cache_every_nbr_calc=10**9,
                           memory_threshold_inGB=1e9)
    gu = np.moveaxis(np.linalg.inv(moved(gam)), (-2, -1), (0, 1))
    det = np.linalg.det(moved(gam))
    bd = np.einsum('ij...,j...->i...', gam, be)
    G = np.zeros((4, 4) + n)
    G[0, 0] = -al ** 2 + np.einsum('i...,i...->...', be, bd)
    G[0, 1:] = G[1:, 0] = bd
    G[1:, 1:] = gam
    Gi = np.moveaxis(np.linalg.inv(moved(G)), (-2, -1), (0, 1))
    Ktr = np.einsum('ij...,ij...->...', gu, K)
    A = K - gam * Ktr / 3
    Au = np.einsum('ia...,jb...,ij...->ab...', gu, gu, A)
    nup = np.concatenate([(1 / al)[None], -be / al])
    ndn = np.concatenate([(-al)[None], np.zeros((3,) + n)])
    want = {
        'gammadown3': gam, 'Kdown3': K, 'betaup3': be,
        'gxx': gam[0, 0], 'gyz': gam[1, 2], 'kxy': K[0, 1], 'betay': be[1],
        'gammaup3': gu, 'gammadet': det,
        'Kup3': np.einsum('ia...,jb...,ij...->ab...', gu, gu, K),
        'Ktrace': Ktr, 'Adown3': A, 'Aup3': Au,
        'A2': 0.5 * np.einsum('ij...,ij...->...', A, Au),
        'psi_bssnok': det ** (1 / 12), 'phi_bssnok': np.log(det) / 12,
        'gammadown3_bssnok': det ** (-1 / 3) * gam,
        'gammaup3_bssnok': det ** (1 / 3) * gu,
        'Adown3_bssnok': det ** (-1 / 3) * A, 'Aup3_bssnok': det ** (1 / 3) * Au,
        'A2_bssnok': np.einsum('ij...,ij...->...', A, Au),
        'betadown3': bd, 'betamag': np.einsum('i...,i...->...', be, bd),
        'nup4': nup, 'ndown4': ndn,
        'gammadown4': G + np.einsum('a...,b...->ab...', ndn, ndn),
        'gammaup4': Gi + np.einsum('a...,b...->ab...', nup, nup),
        'gtt': G[0, 0], 'gtx': G[0, 1], 'gty': G[0, 2], 'gtz': G[0, 3],
        'gdown4': G, 'gup4': Gi, 'gdet': -al ** 2 * det,
        'dttau': np.sqrt(np.abs(-G[0, 0])),
        # fluid left at its Eulerian default: u = n, projector h^a_b = delta^a_b + u^a u_b
        'uup4': nup, 'udown4': ndn,
        'hdown4': G + np.einsum('a...,b...->ab...', ndn, ndn),
        'hup4': Gi + np.einsum('a...,b...->ab...', nup, nup),
        'hmixed4': (np.eye(4).reshape((4, 4) + (1,) * len(n))
                    + np.einsum('a...,b...->ab...', nup, ndn)),
    }
    got = {}
    with common.Quiet():
        # gdet arm 1 (gdown4 not cached) first, arm 2 after gdown4
        try:
            with np.errstate(all='raise'):
                got['gdet#from_3+1'] = np.array(rel['gdet'])
                # request order varies from case to case (e.g. gup4 with and
                # without gdown4 in the cache)
                for k in [list(want)[i] for i in rng.permutation(len(want))]:
                    got[k] = np.array(rel[k])
                del rel.data['gdet']
                got['gdet#from_gdown4'] = np.array(rel['gdet'])
                got['levicivita_down3'] = np.array(rel.levicivita_down3())
                got['levicivita_down4'] = np.array(rel.levicivita_down4())
        except Exception as e:
            common.add_violation(res, f"keys raise {type(e).__name__}",
                                 {"err": repr(e)[:300], "tags": tags})
            return
    # 3+1 -> 4D promotion of a purely spatial tensor, asked on a fresh instance
    # (before anything built betaup3 when the shift was given by components)
    rel_s = harness.make_rel(fd, inp, clear_cache_every_nbr_calc=10**9,
                             memory_threshold_inGB=1e9)
    with common.Quiet():
        got['s_to_st(K)#fresh'] = np.array(rel_s.s_to_st(K))
        got['s_to_st(K)#later'] = np.array(rel.s_to_st(K))
    K4 = np.zeros((4, 4) + n)
    bK = np.einsum('i...,ik...->k...', be, K)
    K4[0, 0] = np.einsum('i...,i...->...', be, bK)
    K4[0, 1:] = K4[1:, 0] = bK
    K4[1:, 1:] = K
    want['s_to_st(K)#fresh'] = K4
    want['s_to_st(K)#later'] = K4
    # second pass: every cached value is still what was handed out
    with common.Quiet():
        for k in list(want):
            if k != 'gdet' and k in rel.data and isinstance(got.get(k), np.ndarray):
                res['observations'] += 1
                if not np.array_equal(np.asarray(rel[k]), got[k]):
                    common.add_violation(res, f"{k} changed in the cache after later requests",
                                         {"tags": tags})
    want['gdet#from_3+1'] = want['gdet']
    want['gdet#from_gdown4'] = want['gdet']
    want['levicivita_down3'] = S.LC3.reshape(S.LC3.shape + (1, 1, 1)) * np.sqrt(det)
    want['levicivita_down4'] = S.LC4.reshape(S.LC4.shape + (1, 1, 1)) * al * np.sqrt(det)
    c4 = np.linalg.cond(moved(G)).max()
    for k, w in want.items():
        t4 = k in ('gup4', 'gammaup4', 'gdet#from_gdown4')
        check_close(res, k, tags, got[k], w, ctol(eps, c4 if t4 else cond))
    # defining identities on the RETURNED values
    g = got
    I3 = np.zeros((3, 3) + n)
    I4 = np.zeros((4, 4) + n)
    for i in range(3):
        I3[i, i] = 1
    for i in range(4):
        I4[i, i] = 1
    ident = {
        'gammaup3*gammadown3=1': (np.einsum('ij...,jk...->ik...', g['gammaup3'], g['gammadown3']), I3, tol),
        'gup4*gdown4=1': (np.einsum('ij...,jk...->ik...', g['gup4'], g['gdown4']), I4, ctol(eps, c4)),
        'n.n=-1': (np.einsum('a...,b...,ab...->...', g['nup4'], g['nup4'], g['gdown4']), -np.ones(n), tol),
        'ndown=g*nup': (np.einsum('ab...,b...->a...', g['gdown4'], g['nup4']), g['ndown4'], tol),
        'n_i=0': (g['ndown4'][1:], np.zeros((3,) + n), 1.0),
        'tr A=0': (np.einsum('ij...,ij...->...', g['gammaup3'], g['Adown3']), np.zeros(n), None),
        'det gamma~=1': (np.linalg.det(moved(g['gammadown3_bssnok'])), np.ones(n), tol),
        'tr~ A~=0': (np.einsum('ij...,ij...->...', g['gammaup3_bssnok'], g['Adown3_bssnok']), np.zeros(n), None),
        'Kup lowered = Kdown': (np.einsum('ia...,jb...,ab...->ij...', g['gammadown3'], g['gammadown3'], g['Kup3']), g['Kdown3'], tol),
        'gammaup4 n = 0': (np.einsum('ab...,b...->a...', g['gammaup4'], g['ndown4']), np.zeros((4,) + n), None),
    }
    ksc = np.abs(K).max() * np.abs(gu).max() * 3
    for lab, (a, b, tl) in ident.items():
        if tl is None:
            check_close(res, lab, tags, a, b, tol, scale=max(ksc, 1.0))
        else:
            check_close(res, lab, tags, a, b, tl, scale=max(np.abs(b).max(), 1.0))


# --------------------------------------------------------------------------
def operand_kinds(rng):
    """(label, value) operands incl. zeros, of many kinds and shapes."""
    ops = []
    for lab, v in [('py_int', 3), ('py_int0', 0), ('py_float', -2.5),
                   ('py_float0', 0.0), ('py_bool', True), ('py_bool0', False),
                   ('py_complex', 1 + 2j), ('py_complex0', 0j),
                   ('np_f64', np.float64(1.5)), ('np_f64_0', np.float64(0.0)),
                   ('np_f32', np.float32(1.5)), ('np_f32_0', np.float32(0.0)),
                   ('np_i64', np.int64(4)), ('np_i64_0', np.int64(0)),
                   ('np_i32_0', np.int32(0)), ('np_c128_0', np.complex128(0)),
                   ('np_bool0', np.bool_(False))]:
        ops.append((lab, v))
    # tiny / huge but non-zero divisors must be divided by, not treated as 0
    for lab, v in [('np_f64_tiny', np.float64(3e-12)), ('py_float_tiny', -2e-9)]:
        ops.append((lab, v))
    for shp in [(3,), (2, 3)]:
        mag = 10.0 ** rng.uniform(-200, -6, size=shp) * rng.choice([-1, 1], size=shp)
        mag.flat[0] = 0.0
        ops.append((f"nd_float64tiny_{'x'.join(map(str, shp))}", mag))
    for dt in ['float64', 'float32', 'int64', 'int32', 'int16', 'uint8',
               'complex128', 'bool']:
        for shp in [(), (3,), (2, 3), (1, 3), (2, 1), (2, 2, 3)]:
            a = rng.integers(-3, 4, size=shp)
            if dt == 'bool':
                a = (a > 0)
            elif dt == 'uint8':
                a = np.abs(a)
            elif dt.startswith('float'):
                a = a * 0.75
            elif dt == 'complex128':
                a = a * (0.5 + 1j) * (rng.integers(0, 2, size=shp))
            arr = np.asarray(a).astype(dt)
            ops.append((f"nd_{dt}_{'x'.join(map(str, shp)) or '0d'}", arr))
    return ops


def run_safe_division(spec, res):
    from aurel import maths
    rng = np.random.default_rng([int(spec['seed']), 10])
    ops = operand_kinds(rng)
    reached = 0
    for (la, a), (lb, b) in itertools.product(ops, ops):
        try:
            bshape = np.broadcast(np.asarray(a), np.asarray(b)).shape
        except ValueError:
            continue
        res['observations'] += 1
        acopy, bcopy = np.array(a, copy=True), np.array(b, copy=True)
        try:
            with np.errstate(all='raise'):
                c = maths.safe_division(a, b)
        except Exception as e:
            common.add_violation(res, f"safe_division raises {type(e).__name__}",
                                 {"a": la, "b": lb, "err": repr(e)[:200]})
            continue
        reached += 1
        c = np.asarray(c)
        A, B = np.broadcast_arrays(np.asarray(a), np.asarray(b))
        A = A.astype(complex if (np.iscomplexobj(A) or np.iscomplexobj(B)) else float)
        B = B.astype(A.dtype)
        with np.errstate(all='ignore'):
            want = np.where(B != 0, A / np.where(B != 0, B, 1), 0)
        bad = None
        if c.shape != bshape:
            bad = f"shape {c.shape} != {bshape}"
        elif not np.all(np.isfinite(c)):
            bad = "non-finite"
        elif np.any(c[B == 0] != 0):
            bad = "non-zero where divisor is zero"
        elif not np.all(np.abs(c - want) <= 1e-6 * np.abs(want) + 1e-300):
            bad = "wrong quotient"
        elif not (np.array_equal(acopy, a) and np.array_equal(bcopy, b)):
            bad = "operand modified"
        if bad:
            kind = lambda l: l.split('_')[0] + '_' + l.split('_')[1]
            common.add_violation(res, f"safe_division {bad.split()[0]} a={kind(la)} b={kind(lb)}",
                                 {"a": la, "b": lb, "what": bad})
        else:
            res['nontrivial'].append(['safe_division', la.rsplit('_', 1)[0], lb.rsplit('_', 1)[0]])
    res['monitor']['safe_division_pairs'] = reached


def run_populate(spec, res):
    from aurel import maths
    rng = np.random.default_rng([int(spec['seed']), 11])
    n = (2, 3, 2)
    # inputs WITH the symmetries of the projections
    a = rng.normal(size=(3, 3, 3, 3) + n)
    a = a - np.einsum('ijkl...->jikl...', a)
    a = a - np.einsum('ijkl...->ijlk...', a)
    ssss = a + np.einsum('ijkl...->klij...', a)
    b = rng.normal(size=(3, 3, 3) + n)
    ssst = b - np.einsum('ijk...->jik...', b)
    c = rng.normal(size=(3, 3) + n)
    stst = c + np.einsum('ij...->ji...', c)
    R = maths.populate_4Riemann(ssss, ssst, stst)
    W = np.zeros((4, 4, 4, 4) + n)
    W[1:, 1:, 1:, 1:] = ssss
    for i in range(3):
        for j in range(3):
            W[i + 1, 0, j + 1, 0] = stst[i, j]
            W[i + 1, 0, 0, j + 1] = -stst[i, j]
            W[0, i + 1, 0, j + 1] = stst[i, j]
            W[0, i + 1, j + 1, 0] = -stst[i, j]
            for k in range(3):
                W[i + 1, j + 1, k + 1, 0] = ssst[i, j, k]
                W[i + 1, j + 1, 0, k + 1] = -ssst[i, j, k]
                W[k + 1, 0, i + 1, j + 1] = ssst[i, j, k]
                W[0, k + 1, i + 1, j + 1] = -ssst[i, j, k]
    tags = ['symmetric inputs']
    res['observations'] += 1
    if R.shape != W.shape or not np.array_equal(R, W):
        common.add_violation(res, "populate_4Riemann placement",
                             {"max": float(np.abs(R - W).max()) if R.shape == W.shape else None})
    else:
        res['nontrivial'].append(['populate_4Riemann', 'placement', spec['seed']])
    for lab, perm, sgn in (('antisym first pair', 'bacd', -1),
                           ('antisym second pair', 'abdc', -1),
                           ('pair exchange', 'cdab', 1)):
        res['observations'] += 1
        if not np.array_equal(R, sgn * np.einsum(f'abcd...->{perm}...', R)):
            common.add_violation(res, f"populate_4Riemann {lab}", {})
        else:
            res['nontrivial'].append(['populate_4Riemann', lab, spec['seed']])
    cyc = R + np.einsum('abcd...->acdb...', R) + np.einsum('abcd...->adbc...', R)
    res['monitor']['populate_cyclic_residual_is_input_property'] = 1


def run_curvsym(spec, res):
    """Symmetries that are exact by construction in the curvature outputs."""
    st = S.ADMTrig(spec['seed'], **spec['variant'])
    n, lo, d = 9, -1.0, 0.25
    x, y, z = harness.coords(n, lo, d)
    ex = S.exact_fields(st, 0.3, x, y, z)
    fd = harness.make_fd(n, lo, d, order=4)
    inp = harness.adm_inputs(ex)
    inp['Tdown4'] = ex['Tdown4']
    rel = harness.make_rel(fd, inp, clear_cache_every_nbr_calc=10**9,
                           memory_threshold_inGB=1e9)
    tags = [str(spec['variant'])]
    with common.Quiet():
        C = np.array(rel['st_Weyl_down4'])          # fresh: E/B construction
        E = np.array(rel['eweyl_n_down3'])
        R = np.array(rel['st_Riemann_down4'])
        gu = np.array(rel['gammaup3'])
        A = np.array(rel['Adown3'])
    z4 = np.zeros_like(R)
    sc = np.abs(R).max()
    # (R_0kij inherits the first-pair antisymmetry of the finite-difference
    #  3-Riemann, which only holds to truncation error: not checked here)
    check_close(res, 'Riemann R_ijk0 = -R_ij0k', tags, R[1:, 1:, 1:, 0],
                -R[1:, 1:, 0, 1:], 1e-13, scale=sc)
    check_close(res, 'Riemann R_i0j0 = -R_i00j', tags, R[1:, 0, 1:, 0],
                -R[1:, 0, 0, 1:], 1e-13, scale=sc)
    check_close(res, 'Riemann R_ijk0 = R_k0ij', tags, R[1:, 1:, 1:, 0],
                np.einsum('kij...->ijk...', R[1:, 0, 1:, 1:]), 1e-13, scale=sc)
    check_close(res, 'Riemann R_i0j0 = R_0i0j', tags, R[1:, 0, 1:, 0],
                R[0, 1:, 0, 1:], 1e-13, scale=sc)
    sc = np.abs(C).max()
    check_close(res, 'Weyl(E/B) antisym 1st pair', tags,
                C + np.einsum('abcd...->bacd...', C), z4, 1e-12, scale=sc)
    check_close(res, 'Weyl(E/B) antisym 2nd pair', tags,
                C + np.einsum('abcd...->abdc...', C), z4, 1e-12, scale=sc)
    # ---- kinematic decomposition for a fluid moving through the slices: the
    # shear is trace-free with respect to the projector orthogonal to u (exact by
    # construction once u.u = -1), symmetric; the vorticity antisymmetric
    v = np.array([0.30 * np.sin(np.pi * x) * np.cos(np.pi * y), 0.20 * np.cos(np.pi * z) + 0.1,
                  -0.25 * np.sin(np.pi * (x + y))]) / (1.0 + np.sqrt(np.abs(ex['gammadown3']).max()))
    Wl = 1 / np.sqrt(1 - np.einsum('i...,j...,ij...->...', v, v, ex['gammadown3']))
    inpk = dict(inp, velx=v[0], vely=v[1], velz=v[2], w_lorentz=Wl)
    relk = harness.make_rel(fd, inpk, clear_cache_every_nbr_calc=10**9, memory_threshold_inGB=1e9)
    with common.Quiet():
        sig = np.array(relk['sheardown4'])
        om = np.array(relk['omegadown4'])
        hu = np.array(relk['hup4'])
        th = np.array(relk['thetadown4'])
    sck = max(np.abs(th).max(), 1e-300)
    check_close(res, 'shear trace-free w.r.t. h (moving fluid)', tags,
                np.einsum('ab...,ab...->...', hu, sig), np.zeros_like(x), 1e-12, scale=sck)
    check_close(res, 'shear symmetric (moving fluid)', tags, sig, np.einsum('ab...->ba...', sig),
                1e-13, scale=sck)
    check_close(res, 'vorticity antisymmetric (moving fluid)', tags, om, -np.einsum('ab...->ba...', om),
                1e-13, scale=sck)
    rel2 = harness.make_rel(fd, inp, clear_cache_every_nbr_calc=10**9,
                            memory_threshold_inGB=1e9)
    with common.Quiet():
        rel2['st_Riemann_down4']
        C2 = np.array(rel2['st_Weyl_down4'])      # Riemann construction
    sc2 = np.abs(C2).max()
    check_close(res, 'Weyl(Riemann) C_ijk0 = -C_ij0k', tags, C2[1:, 1:, 1:, 0],
                -C2[1:, 1:, 0, 1:], 1e-12, scale=sc2)
    check_close(res, 'Weyl(Riemann) C_i0j0 = -C_i00j = C_0i0j', tags, C2[1:, 0, 1:, 0],
                -C2[1:, 0, 0, 1:], 1e-12, scale=sc2)
    check_close(res, 'Weyl(Riemann) C_i0jk = -C_0ijk', tags, C2[1:, 0, 1:, 1:],
                -C2[0, 1:, 1:, 1:], 1e-12, scale=sc2)
    check_close(res, 'tr E = 0', tags, np.einsum('ij...,ij...->...', gu, E),
                np.zeros(E.shape[2:]), 1e-12,
                scale=float(np.abs(ex['s_Ricci_down3']).max()
                            + np.abs(ex['Kdown3']).max() ** 2))
    check_close(res, 'tr A = 0 (curved)', tags,
                np.einsum('ij...,ij...->...', gu, A), np.zeros(E.shape[2:]),
                1e-12, scale=float(np.abs(ex['Kdown3']).max()))


def run_case(spec):
    res = common.new_result(spec)
    {'maths': run_maths, 'curvsym': run_curvsym, 'keys': run_keys, 'safe_division': run_safe_division,
     'populate': run_populate}[spec['kind']](spec, res)
    return res
