"""C02 - requests never modify user inputs or values already handed out."""
import copy
import os
import shutil
import tempfile

import numpy as np

from lib import common, harness, history as H, monitor, spacetimes as S
from props import c01

LEVEL = "exploration"
RULE = ("case kinds: (walk) a request history on a non-flat, non-vacuum (or "
        "vacuum-flag) instance where every input array and every value ever "
        "returned (with its .base chain) is entered in a digest ledger and "
        "the whole ledger is re-hashed after EVERY request, walks biased "
        "towards 'cache a key, then request one derived from it'; (over_time) "
        "the per-step arrays, the data dict, vars and estimates lists handed "
        "to the driver are snapshotted and compared afterwards, incl. split "
        "calls and tensor columns; (io) data dict, vars and it lists handed "
        "to save_data / read_data. non-trivial = distinct (operation, role of "
        "the guarded object) with >= 1 cached-then-reused array, and for "
        "walks distinct history hashes in which a previously returned array "
        "was still cached when a derived key was computed")
ASSUMPTIONS = ["blake2b digests of array bytes; objects compared with deep equality against deepcopy snapshots"]
TIMEOUT = {"quick": 1800, "thorough": 7000}
MIN_NONTRIVIAL = {"quick": 60, "thorough": 300}

PAIRS = [('st_Riemann_down4', 'st_Weyl_down4'), ('gdown4', 'gtt'),
         ('gammadown3', 'gxx'), ('Kdown3', 'kxy'), ('Tdown4', 'Ttrace'),
         ('s_Riemann_down3', 's_Ricci_down3'), ('st_Ricci_down4', 'st_Ricci_down3'),
         ('Momentumup3', 'Momentumx'), ('st_Weyl_down4', 'Weyl_Psi'),
         ('gammaup3', 'dtgammaup3'), ('s_Gamma_bssnok', 'dts_Gamma_bssnok'),
         ('Adown3_bssnok', 'dtAdown3_bssnok'), ('betaup3', 'betadown3'),
         ('Weyl_Psi', 'Weyl_invariants'), ('rho', 'eps')]


def cases(tier, sd):
    out = []
    base = c01.cases(tier, sd + 1000)
    nw = 40 if tier == "quick" else 300
    for i, c in enumerate(base[:nw]):
        c = dict(c, kind='walk')
        out.append(c)
    for r in range(8 if tier == "quick" else 16):     # 4 styles x 2 tetrad choices
        out.append(dict(kind='sweep', seed=100 * sd + r))
    for r in range(6 if tier == "quick" else 30):
        out.append(dict(kind='over_time', seed=100 * sd + r))
    for r in range(6 if tier == "quick" else 30):
        out.append(dict(kind='io', seed=100 * sd + r))
    for r in range(2 if tier == "quick" else 8):
        out.append(dict(kind='excised', seed=100 * sd + r))
    return out


def run_walk(spec, res):
    keys = H.all_keys()
    rng = np.random.default_rng([int(spec['hseed']), 7])
    ops = H.gen_history(rng, spec['length'], keys)
    for _ in range(3):
        a, b = PAIRS[int(rng.integers(len(PAIRS)))]
        pos = int(rng.integers(len(ops) + 1))
        ops[pos:pos] = [('key', a), ('key', b)]
    ledger = monitor.ArrayLedger()
    hits = []

    def audit(i, op, rel, val):
        if val is not None:
            ledger.register(val, f"returned:{op[1]}", f"op{i}")
        bad = ledger.audit(f"op{i}:{op[1]}")
        for b in bad:
            hits.append(b)
    recs, events, counters, _ = c01.run_walk(spec, spec['n1'], ops, fresh_for=set(),
                                             ledger=ledger, audit=audit)
    res['observations'] += len(ops) * max(len(ledger.entries), 1)
    res['monitor'] = dict(ledger_arrays=len(ledger.entries), requests=len(ops),
                          evictions=counters['evict_regular'] + counters['evict_memory'])
    seen = set()
    for b in hits:
        role = b['role'].split('[')[0]
        mech = f"in-place change of {role.split(':')[0]} array '{role.split(':')[1]}' by request {b['after_op'].split(':', 1)[1]}"
        if mech in seen:
            continue
        seen.add(mech)
        common.add_violation(res, mech, dict(b, history=[o[1] for o in ops],
                                             cache=spec['cache'], style=spec['style']))
    reused = 0
    for r in recs:
        if r['op'][0] == 'key' and r['hit']:
            reused += 1
    if reused and not hits:
        res['nontrivial'].append(['walk', common.jhash([o[1] for o in ops])])
        for (a, b) in PAIRS:
            ks = [o[1] for o in ops]
            if a in ks and b in ks and ks.index(a) < len(ks) - 1 - ks[::-1].index(b):
                res['nontrivial'].append(['pair', a, b, spec['style']])


def snapshot(obj):
    return copy.deepcopy(obj)


def same(a, b):
    if isinstance(a, np.ndarray) or isinstance(b, np.ndarray):
        return (isinstance(a, np.ndarray) and isinstance(b, np.ndarray)
                and a.shape == b.shape and a.dtype == b.dtype
                and np.array_equal(a, b, equal_nan=True))
    if isinstance(a, dict):
        return (isinstance(b, dict) and list(a.keys()) == list(b.keys())
                and all(same(a[k], b[k]) for k in a))
    if isinstance(a, (list, tuple)):
        return (type(a) is type(b) and len(a) == len(b)
                and all(same(x, y) for x, y in zip(a, b)))
    if callable(a):
        return a is b
    return a == b


def run_over_time(spec, res):
    from aurel import time as atime
    rng = np.random.default_rng([int(spec['seed']), 72])
    n, lo, L = 6, -1.0, 2.0
    d = L / n
    fd = harness.make_fd(n, lo, d, order=2, boundary='periodic')
    st = S.ADMTrig(int(rng.integers(1 << 20)), period=2.0)
    x, y, z = harness.coords(n, lo, d)
    steps = int(rng.integers(1, 4))
    times = sorted(rng.uniform(0, 1, steps))[::-1] if rng.random() < 0.5 else list(rng.uniform(0, 1, steps))
    tkey = ['it', 'iteration', 't', 'time'][int(rng.integers(4))]
    data = {tkey: [float(t) for t in times]}
    for t in times:
        ex = S.exact_fields(st, float(t), x, y, z)
        for k in ['gammadown3', 'Kdown3', 'alpha', 'betaup3', 'Tdown4']:
            data.setdefault(k, []).append(np.array(ex[k], copy=True))

    def custom(rel):
        return rel['Ktrace'] + rel['alpha']
    vars1 = ['Ktrace', 'st_Riemann_down4', {'mine': custom}]
    vars2 = ['st_Weyl_down4', 'gtt', 's_RicciS']
    builtin = list(atime.est_functions.keys())
    est = [str(v) for v in rng.choice(builtin, 4, replace=False)] + \
          ['median', {'myest': lambda a: float(np.mean(a))}]
    ledger = monitor.ArrayLedger()
    ledger.register(data, "over_time data:", "start")
    snaps = dict(data=snapshot(data), vars1=list(vars1), vars2=list(vars2), est=list(est))
    keys0 = list(data.keys())
    with common.Quiet():
        out1 = atime.over_time(data, fd, vars=vars1, estimates=est, verbose=False,
                               clear_cache_every_nbr_calc=int(rng.choice([1, 3, 20])))
        mid_bad = ledger.audit("over_time call 1")
        ledger.register(out1, "over_time result 1:", "call1")
        snap_out1 = snapshot({k: v for k, v in out1.items()})
        out2 = atime.over_time(out1, fd, vars=vars2, estimates=est, verbose=False)
        bad = mid_bad + ledger.audit("over_time call 2")
    res['observations'] += len(ledger.entries)
    checks = {
        "caller's data dict (keys)": list(data.keys()) == keys0,
        "caller's data dict (contents)": same(data, snaps['data']),
        "vars list (call 1)": same(vars1, snaps['vars1']),
        "vars list (call 2)": same(vars2, snaps['vars2']),
        "estimates list": len(est) == len(snaps['est']) and est[:5] == snaps['est'][:5],
        "result of call 1 after being passed to call 2": all(
            same(out1[k], snap_out1[k]) for k in snap_out1 if k in out1) and list(out1.keys()) == list(snap_out1.keys()),
    }
    for lab, ok in checks.items():
        res['observations'] += 1
        if not ok:
            common.add_violation(res, f"over_time modifies {lab}", {"tkey": tkey, "steps": steps})
        else:
            res['nontrivial'].append(['over_time', lab])
    for b in bad:
        common.add_violation(res, f"over_time in-place change of {b['role'].split('[')[0]}",
                             dict(b))


def run_io(spec, res):
    A = harness.aurel()
    rng = np.random.default_rng([int(spec['seed']), 73])
    os.makedirs(common.WORK, exist_ok=True)
    tmp = tempfile.mkdtemp(dir=common.WORK, prefix="c02io")
    try:
        its = [int(v) for v in rng.choice(np.arange(0, 40, 2), 4, replace=False)]
        data = {'it': list(its), 't': [0.5 * i for i in its],
                'rho': [rng.normal(size=(3, 4, 2)) for _ in its],
                'gxx': [rng.normal(size=(3, 4, 2)) for _ in its]}
        param = {'datapath': tmp + ('/' if rng.random() < 0.5 else '')}
        vars_ = [['rho'], ['gxx', 'rho'], ['it', 'rho'], ['t', 'gxx'], ['rho', 'it', 't'],
                 ['it']][int(rng.integers(6))]
        if rng.random() < 0.25:
            del data['it']                   # positional correspondence only
            its = sorted(its)
            data['t'] = [0.5 * i for i in its]
            vars_ = [v for v in vars_ if v != 'it'] or ['rho']
        it_ = list(its[:3]) if rng.random() < 0.5 else list(its)
        snaps = dict(data=snapshot(data), vars=list(vars_), it=list(it_), param=dict(param))
        with common.Quiet():
            A.save_data(param, data, vars=vars_, it=it_)
        for lab, ok in {"save_data: vars list": vars_ == snaps['vars'],
                        "save_data: it list": it_ == snaps['it'],
                        "save_data: data dict": same(data, snaps['data']),
                        "save_data: param dict": param == snaps['param']}.items():
            res['observations'] += 1
            if not ok:
                common.add_violation(res, f"{lab} modified", {"vars": snaps['vars'], "after": vars_})
            else:
                res['nontrivial'].append(['io', lab])
        rv = ['rho', 'gxx'][: int(rng.integers(1, 3))]
        ri = list(it_[::-1])
        s2 = dict(vars=list(rv), it=list(ri), param=dict(param))
        with common.Quiet():
            A.read_data(param, vars=rv, it=ri)
        for lab, ok in {"read_data: vars list": rv == s2['vars'],
                        "read_data: it list": ri == s2['it'],
                        "read_data: param dict": param == s2['param']}.items():
            res['observations'] += 1
            if not ok:
                common.add_violation(res, f"{lab} modified", {})
            else:
                res['nontrivial'].append(['io', lab])
        # ---- Einstein Toolkit reader: every component of the tensors spelled out
        from lib import etgen
        from props import c11
        espec = c11.gen_spec(7000 + int(spec['seed']), 'quick')
        eroot = os.path.join(tmp, 'et')
        os.makedirs(eroot)
        eparam = etgen.make_sim(eroot, espec)
        rl = min(espec['levels'])
        pool = sorted({i for rs in espec['restarts'] for i in rs['its'].get(rl, [])})
        ev = [etgen.aurel_name(v) for v in espec['vars']]
        ei = [int(pool[0]), int(pool[-1])]
        for split in (False, True):
            s3 = dict(vars=list(ev), it=list(ei), param=dict(eparam))
            try:
                with common.Quiet():
                    A.read_data(eparam, vars=ev, it=ei, rl=rl, split_per_it=split,
                                skip_last=False, verbose=False)
            except Exception:
                break             # layouts the reader refuses are C11's subject
            for lab, ok in {"read_data (ET): vars list": ev == s3['vars'],
                            "read_data (ET): it list": ei == s3['it'],
                            "read_data (ET): param dict": eparam == s3['param']}.items():
                res['observations'] += 1
                if not ok:
                    common.add_violation(res, f"{lab} modified", {"before": s3['vars'], "after": ev})
                    ev, ei = list(s3['vars']), list(s3['it'])
                else:
                    res['nontrivial'].append(['io', lab, split])
        # ---- the chunk-joining helper of the reader on a caller-owned dictionary
        from aurel import reading
        full = rng.normal(size=(6, 4, 5))
        chunks = {(0, 0, 0): np.transpose(full[:3], (2, 1, 0)).copy(),
                  (3, 0, 0): np.transpose(full[3:], (2, 1, 0)).copy()}
        snapc = {k: v.copy() for k, v in chunks.items()}
        with common.Quiet():
            reading.join_chunks(chunks)
        res['observations'] += 1
        if list(chunks) != list(snapc) or any(not np.array_equal(chunks[k], snapc[k]) for k in snapc):
            common.add_violation(res, "join_chunks: dictionary of chunks modified", {})
        else:
            res['nontrivial'].append(['io', 'join_chunks dict'])
    finally:
        shutil.rmtree(tmp, ignore_errors=True)


def run_sweep(spec, res):
    """Every key twice in random order with eviction disabled: when a key is
    computed the second time every other value is cached, so an in-place
    update of ANY cached array by ANY key shows up in the ledger."""
    rng = np.random.default_rng([int(spec['seed']), 74])
    keys = [k for k in H.all_keys() if k not in H.SLOW]
    style = ['tensor', 'components', 'solution', 'vacuum'][spec['seed'] % 4]
    if style == 'solution':
        m = dict(family='solution', module=['Collins_Stewart', 'Szekeres'][spec['seed'] // 4 % 2])
    elif style == 'vacuum':
        m = dict(family=S.PulledBack.name, seed=int(rng.integers(1 << 20)), base='kasner', period=2.0)
    else:
        m = dict(family=S.ADMTrig.name, seed=int(rng.integers(1 << 20)), period=2.0, shear=0.3)
    wspec = dict(member=m, style='tensor' if style in ('vacuum',) else style,
                 vacuum=(style == 'vacuum'), Lambda=0.1 if style in ('tensor', 'components') else 0.0,
                 tetrad=(None if (spec['seed'] // 4) % 2 == 0 else 'fluid'),
                 n1=(9 if style == 'solution' else 6), order=2,
                 mode=('open' if style == 'solution' else 'periodic'),
                 cache=dict(every=10 ** 9, gb=1e9, importance=None))
    order1 = [keys[i] for i in rng.permutation(len(keys))]
    order2 = [keys[i] for i in rng.permutation(len(keys))]
    ops = [('key', k) for k in order1 + order2] + [('helper', h) for h in H.HELPERS]
    ledger = monitor.ArrayLedger()
    hits = []

    def audit(i, op, rel, val):
        if val is not None:
            ledger.register(val, f"returned:{op[1]}", f"op{i}")
        for b in ledger.audit(f"op{i}:{op[1]}"):
            hits.append(b)
        # everything now in the cache is what a later request would hand out
        ledger.register(rel.data, "cached:", f"op{i}")
    c01.run_walk(wspec, wspec['n1'], ops, fresh_for=set(), ledger=ledger, audit=audit)
    res['observations'] += len(ops) * max(len(ledger.entries), 1)
    res['monitor'] = dict(sweep_requests=len(ops), ledger_arrays=len(ledger.entries))
    seen = set()
    for b in hits:
        role = b['role']
        kind = role.split(':')[0]
        nm = role.split(':', 1)[1].split('[')[0] or role.split('[', 1)[1].split(']')[0].strip("'")
        mech = f"in-place change of {kind} array '{nm}' by request {b['after_op'].split(':', 1)[1]}"
        if mech not in seen:
            seen.add(mech)
            common.add_violation(res, mech, dict(b, style=style))
    if not hits:
        res['nontrivial'].append(['sweep', style, len(ops)])


def run_excised(spec, res):
    """Wave data with an excised (NaN) interior and an infinite value at a
    puncture: whatever is handed out (the inputs, Weyl_Psi, the grid) keeps its
    bytes while the mode decomposition is computed."""
    rng = np.random.default_rng([int(spec['seed']), 75])
    N, L = 24, 6.0
    d = L / (N - 1)
    fd = harness.make_fd(N, -L / 2, d, order=4)
    x, y, z = harness.coords(N, -L / 2, d)
    r = np.sqrt(x * x + y * y + z * z)
    p4 = (rng.normal(size=x.shape) + 1j * rng.normal(size=x.shape)) * np.exp(-r)
    p4[r < 0.8] = np.nan
    p4[N // 2, N // 2, N // 2 + 1] = np.inf
    inp = {'Weyl_Psi4r': p4.real.copy(), 'Weyl_Psi4i': p4.imag.copy()}
    rel = harness.make_rel(fd, inp, lmax=2, extract_radii=[1.6, 2.2],
                           interp_method=['linear', 'cubic'][spec['seed'] % 2])
    ledger = monitor.ArrayLedger()
    ledger.register(inp, "input:", "start")
    ledger.register({k: getattr(fd, k) for k in ('xarray', 'yarray', 'zarray', 'cartesian_coords')},
                    "grid:", "start")
    hits = []
    for k in ('Weyl_Psi', 'Psi4_lm', 'Weyl_Psi', 'Psi4_lm'):
        with common.Quiet(), np.errstate(all='ignore'):
            try:
                v = rel[k]
            except Exception as e:
                res['notes'].append(f"{k} raises {type(e).__name__} on excised data")
                continue
        ledger.register(v, f"returned:{k}", k)
        ledger.register(rel.data, "cached:", k)
        hits += ledger.audit(f"x:{k}")
        res['observations'] += len(ledger.entries)
    # ---- Weyl scalars supplied by the user with an identically vanishing Psi4:
    # what was supplied / handed out keeps its order and identity
    P = [(rng.normal(size=x.shape) + 1j * rng.normal(size=x.shape)) for _ in range(4)] + \
        [np.zeros(x.shape, dtype=complex)]
    rel2 = harness.make_rel(fd, {'Weyl_Psi': P}, lmax=2)
    ids = [id(a) for a in P]
    ledger2 = monitor.ArrayLedger()
    ledger2.register(P, "input:Weyl_Psi", "start")
    for k in ('Weyl_invariants', 'Weyl_Psi'):
        with common.Quiet(), np.errstate(all='ignore'):
            try:
                rel2[k]
            except Exception as e:
                res['notes'].append(f"{k} raises {type(e).__name__} with supplied Weyl_Psi")
        res['observations'] += 1
        now = rel2.data.get('Weyl_Psi')
        if [id(a) for a in P] != ids or (now is not None and [id(a) for a in now] != ids) \
                or ledger2.audit(k):
            common.add_violation(res, f"the supplied list of Weyl scalars was re-ordered / modified by request {k}", {})
            break
    # ---- a request that fails half-way (unknown interpolation method) leaves
    # the field it was given as it was
    from aurel import numerical
    fld = (rng.normal(size=x.shape) * 37.5)
    keep = fld.copy()
    axes = (fd.xarray, fd.yarray, fd.zarray)
    tgt = (np.array([0.1, 0.2]), np.array([0.0, 0.3]), np.array([-0.2, 0.1]))
    for meth in ('no-such-method', 'quintic'):
        try:
            with common.Quiet():
                numerical.interpolate(fld[:5, :5, :5] if meth == 'quintic' else fld,
                                      tuple(a[:5] for a in axes) if meth == 'quintic' else axes,
                                      tuple(t * 0 + a[2] for t, a in zip(tgt, axes)) if meth == 'quintic' else tgt,
                                      method=meth)
        except Exception:
            pass
        res['observations'] += 1
        if not np.array_equal(fld, keep):
            common.add_violation(res, "numerical.interpolate left its input field modified after a failed call",
                                 {"method": meth})
            break
    for b in hits:
        nm = b['role'].split(':', 1)[1]
        common.add_violation(res, f"in-place change of {b['role'].split(':')[0]} array "
                                  f"'{nm.split('[')[0] or nm}' by request {b['after_op'].split(':', 1)[1]} "
                                  "(non-finite wave data)", b)
    if not hits:
        res['nontrivial'].append(['excised', spec['seed'] % 2])


def run_case(spec):
    res = common.new_result(spec)
    {'walk': run_walk, 'sweep': run_sweep, 'over_time': run_over_time, 'io': run_io,
     'excised': run_excised}[spec['kind']](spec, res)
    return res
