"""C20 - spin-weighted harmonics and sphere extraction."""
import numpy as np
import scipy.special as sc

from lib import common, harness

LEVEL = "exploration"
RULE = ("case kinds: (ortho) Gram matrix of all sYlm with |s|<=l<=lmax, |m|<=l "
        "for one spin s in [-2,2] under Gauss-Legendre x uniform-phi quadrature "
        "(exact for the band limit) must be the identity to 1e-10, spin 0 must "
        "equal scipy's harmonics times (-1)^m; (roundtrip) sYlm_coefficients o "
        "sYlm_reconstruct = id on random band-limited coefficient sets; "
        "(interp) numerical.interpolate exact at nodes and for trilinear "
        "fields, accepts points on faces, raises for points outside on each "
        "of the six sides, for non-cubic grids and several methods; (psi4) "
        "Psi4_lm with injected Weyl_Psi4r/i = Re/Im of A f(r) -2Y_{l0 m0} about "
        "arbitrary centres/radii returns A f(R) in mode (l0,m0), others -> 0, "
        "error falling with resolution and < 5% on the fine grid. non-trivial "
        "= distinct (s,l,m) triples and (centre, radius, method, l0, m0) settings")
ASSUMPTIONS = ["Gauss-Legendre quadrature (numpy) and scipy.special.sph_harm_y as references"]
TIMEOUT = {"quick": 900, "thorough": 3000}
MIN_NONTRIVIAL = {"quick": 150, "thorough": 600}


def cases(tier, sd):
    lmax = 6 if tier == "quick" else 12
    out = [dict(kind='ortho', s=s, lmax=lmax) for s in range(-2, 3)]
    if tier == "quick":     # high degrees (factorials beyond the int64 range), upper band only
        out += [dict(kind='ortho', s=s, lmax=12, lmin=9) for s in (-2, 0, 1)]
    for r in range(3 if tier == "quick" else 30):
        out.append(dict(kind='roundtrip', s=[-2, 0, 2, -1, 1][r % 5],
                        lmax=lmax - (r % 3), seed=100 * sd + r))
    for r in range(8 if tier == "quick" else 60):
        out.append(dict(kind='interp', seed=100 * sd + r))
    modes = [(2, 2), (2, -1), (3, 0), (4, -3), (2, 0), (3, 3), (5, 2), (4, 4)]
    for r in range(4 if tier == "quick" else 16):
        l0, m0 = modes[(r + sd) % len(modes)]
        out.append(dict(kind='psi4', l0=l0, m0=m0, seed=100 * sd + r,
                        amp=[1.0, 1e-9, 1e6, 1e-12][(r + sd) % 4],
                        method=['linear', 'cubic'][r % 2] if tier == "thorough" else ['linear', 'linear', 'linear', 'cubic'][r % 4],
                        nfine=64 if tier == "quick" else 80))
    return out


def gl_grid(lmax):
    nth = lmax + 2
    xg, wg = np.polynomial.legendre.leggauss(nth)
    theta = np.arccos(xg)
    nph = 2 * lmax + 3
    phi = 2 * np.pi * np.arange(nph) / nph
    th2, ph2 = np.meshgrid(theta, phi, indexing='ij')
    w2 = np.broadcast_to(wg[:, None], th2.shape)
    return th2, ph2, w2, 2 * np.pi / nph


def run_ortho(spec, res):
    from aurel import maths
    s, lmax = spec['s'], spec['lmax']
    th, ph, w, dphi = gl_grid(lmax)
    lm = [(l, m) for l in range(max(abs(s), spec.get('lmin', 0)), lmax + 1)
          for m in range(-l, l + 1)]
    with np.errstate(all='ignore'):
        Y = np.array([maths.sYlm(s, l, m, th, ph).ravel() for l, m in lm])
    G = (Y * (w.ravel() * dphi)) @ Y.conj().T
    err = np.abs(G - np.eye(len(lm)))
    res['observations'] += len(lm) ** 2
    if not np.all(np.isfinite(G)) or err.max() > 1e-10:
        i, j = np.unravel_index(np.nanargmax(err), err.shape)
        common.add_violation(res, f"orthonormality s={s}" + (" norm" if i == j else " cross"),
                             {"lm1": lm[i], "lm2": lm[j], "gram": [G[i, j].real, G[i, j].imag]})
    else:
        for l, m in lm:
            res['nontrivial'].append(['ortho', s, l, m])
    # conjugation symmetry  conj(sYlm) = (-1)^(s+m) -sYl-m
    for l, m in lm[:: max(1, len(lm) // 12)]:
        a = np.conj(maths.sYlm(s, l, m, th, ph))
        b = (-1) ** (s + m) * maths.sYlm(-s, l, -m, th, ph)
        res['observations'] += 1
        if np.abs(a - b).max() > 1e-10:
            common.add_violation(res, "conjugation symmetry", {"s": s, "l": l, "m": m})
    # the poles themselves: finite, and continuous with their neighbourhood
    thp = np.array([0.0, 1e-7, np.pi - 1e-7, np.pi])
    php = np.full(4, 0.3)
    for l, m in lm:
        with np.errstate(all='ignore'):
            v = maths.sYlm(s, l, m, thp, php)
        res['observations'] += 1
        if not np.all(np.isfinite(v)) or abs(v[0] - v[1]) > 1e-5 or abs(v[3] - v[2]) > 1e-5:
            common.add_violation(res, "sYlm not finite / not continuous at a pole",
                                 {"s": s, "l": l, "m": m, "values": [complex(x) for x in v]})
            break
    if s == 0:
        for l, m in lm:
            a = maths.sYlm(0, l, m, th, ph)
            b = (-1) ** m * sc.sph_harm_y(l, m, th, ph)
            res['observations'] += 1
            if np.abs(a - b).max() > 1e-10:
                common.add_violation(res, "spin 0 vs scipy harmonics", {"l": l, "m": m,
                                     "err": float(np.abs(a - b).max())})
            else:
                res['nontrivial'].append(['spin0=scipy', l, m])


def run_roundtrip(spec, res):
    # the same angular grid is decomposed with several spin weights one after
    # the other in one process (a memo keyed without s would show here)
    order = [spec['s']] + [q for q in (-2, 0, 2, -1, 1) if q != spec['s']]
    for k, sw in enumerate(order[:3]):
        _roundtrip_one(dict(spec, s=sw, seed=spec['seed'] * 7 + k), res)


def _roundtrip_one(spec, res):
    from aurel import maths
    s, lmax = spec['s'], spec['lmax']
    rng = np.random.default_rng([int(spec['seed']), 20])
    th, ph, w, dphi = gl_grid(lmax)
    alm = {}
    for l in range(lmax + 1):
        for m in range(-l, l + 1):
            alm[l, m] = (rng.normal() + 1j * rng.normal()) if l >= abs(s) else 0.0
    f = maths.sYlm_reconstruct(s, lmax, alm, th, ph)
    # independent synthesis
    g = np.zeros_like(th, dtype=complex)
    for (l, m), a in alm.items():
        if l >= abs(s):
            g = g + a * maths.sYlm(s, l, m, th, ph)
    res['observations'] += 1
    if np.abs(f - g).max() > 1e-10:
        common.add_violation(res, "sYlm_reconstruct != sum a_lm sYlm", {"s": s})
        return
    back = maths.sYlm_coefficients(s, lmax, f, th, ph, w, dphi)
    res['observations'] += len(alm)
    if set(back) != set(alm):
        common.add_violation(res, "sYlm_coefficients key set", {})
        return
    worst = max(abs(back[k] - alm[k]) for k in alm)
    if not worst <= 1e-9:
        k = max(alm, key=lambda k: abs(back[k] - alm[k]))
        common.add_violation(res, "coefficients o reconstruct != id",
                             {"s": s, "lm": k, "err": float(worst)})
    else:
        for (l, m) in alm:
            res['nontrivial'].append(['roundtrip', s, l, m])
    # the sphere points may come in any array layout (phi-major, flat lists)
    for lay, tr in (('phi-major', lambda a: np.ascontiguousarray(a.T)), ('flat', lambda a: a.ravel())):
        try:
            bl = maths.sYlm_coefficients(s, lmax, tr(f), tr(th), tr(ph), tr(w), dphi)
            worst = max(abs(bl[k] - back[k]) for k in back)
        except Exception as e:
            common.add_violation(res, f"sYlm_coefficients raises for a {lay} point layout",
                                 {"s": s, "err": repr(e)[:200]})
            continue
        res['observations'] += len(back)
        if not worst <= 1e-10:
            common.add_violation(res, f"sYlm_coefficients depends on the array layout ({lay})",
                                 {"s": s, "err": float(worst)})
        else:
            res['nontrivial'].append(['layout', lay, s, lmax])
    # a real-dtype field is an ordinary field: same coefficients as its complex copy
    fr = np.ascontiguousarray(f.real)
    a_real = maths.sYlm_coefficients(s, lmax, fr, th, ph, w, dphi)
    a_cplx = maths.sYlm_coefficients(s, lmax, fr.astype(complex), th, ph, w, dphi)
    res['observations'] += len(a_cplx)
    worst = max(abs(a_real[k] - a_cplx[k]) for k in a_cplx)
    if not worst <= 1e-10:
        k = max(a_cplx, key=lambda k: abs(a_real[k] - a_cplx[k]))
        common.add_violation(res, "coefficients of a real-dtype field differ from its complex copy",
                             {"s": s, "lm": k, "err": float(worst)})
    else:
        res['nontrivial'].append(['real-dtype', s, lmax])


def run_interp(spec, res):
    from aurel import numerical
    rng = np.random.default_rng([int(spec['seed']), 21])
    n = tuple(int(v) for v in rng.integers(4, 9, 3))
    lo = rng.uniform(-2, 1, 3)
    d = rng.uniform(0.1, 0.7, 3)
    ax = [lo[i] + np.arange(n[i]) * d[i] for i in range(3)]
    X, Y, Z = np.meshgrid(*ax, indexing='ij')
    c = rng.normal(size=8)
    tri = lambda x, y, z: (c[0] + c[1] * x + c[2] * y + c[3] * z + c[4] * x * y
                           + c[5] * y * z + c[6] * x * z + c[7] * x * y * z)
    val = tri(X, Y, Z)
    rnd = rng.normal(size=n)
    hi = [a[-1] for a in ax]
    tagbase = ['x'.join(map(str, n))]
    # the field's magnitude must not matter (wave-zone fields are tiny)
    amp = float([1.0, 1e-9, 1e5, 1e-13][int(spec['seed']) % 4])
    if (int(spec['seed']) // 4) % 2:
        rnd = -np.abs(rnd)          # a field without positive values
        amp = min(amp, 1e-9)
    for method in ['linear', 'nearest', 'cubic', 'slinear']:
        if method == 'cubic' and min(n) < 4:
            continue
        # exact at nodes (random field)
        pts = (X[::2, 1::2, ::3], Y[::2, 1::2, ::3], Z[::2, 1::2, ::3])
        res['observations'] += 1
        try:
            got = numerical.interpolate(amp * rnd, tuple(ax), pts, method=method)
        except Exception as e:
            common.add_violation(res, f"interpolate raises at nodes ({method})", {"err": repr(e)[:200]})
            continue
        tol = 1e-3 if method == 'cubic' else 1e-10   # scipy's spline solve is iterative
        if got.shape != pts[0].shape or np.abs(got / amp - rnd[::2, 1::2, ::3]).max() > tol:
            common.add_violation(res, f"interpolate not exact at nodes ({method})",
                                 {"field_magnitude": amp,
                                  "err": float(np.abs(got / amp - rnd[::2, 1::2, ::3]).max())})
        else:
            res['nontrivial'].append(['nodes', method, amp] + tagbase)
    # targets that are not C-contiguous (transposed views, Fortran order)
    Tn = [rng.uniform(lo[i], hi[i], (5, 3)) for i in range(3)]
    Tn = [Tn[0].T, np.asfortranarray(Tn[1].T), Tn[2].T.copy()]
    res['observations'] += 1
    gotn = numerical.interpolate(val, tuple(ax), tuple(Tn), method='linear')
    if gotn.shape != (3, 5) or np.abs(gotn - tri(*Tn)).max() > 1e-10 * max(np.abs(val).max(), 1):
        common.add_violation(res, "interpolate wrong for non-contiguous target arrays", {})
    else:
        res['nontrivial'].append(['non-contiguous targets'] + tagbase)
    # trilinear exactness at random interior points, arbitrary target shape
    T = [rng.uniform(lo[i], hi[i], (3, 5)) for i in range(3)]
    res['observations'] += 1
    got = numerical.interpolate(val, tuple(ax), tuple(T), method='linear')
    if got.shape != (3, 5) or np.abs(got - tri(*T)).max() > 1e-10 * max(np.abs(val).max(), 1):
        common.add_violation(res, "interpolate not exact on trilinear field", {})
    else:
        res['nontrivial'].append(['trilinear'] + tagbase)
    # a large set of targets (a finely sampled sphere is > 1e5 points): every one is evaluated
    if int(spec['seed']) % 2 == 0:
        nbig = 70001
        Tb = [rng.uniform(lo[i], hi[i], nbig) for i in range(3)]
        res['observations'] += 1
        gotb = numerical.interpolate(val, tuple(ax), tuple(Tb), method='linear')
        if gotb.shape != (nbig,) or np.abs(gotb - tri(*Tb)).max() > 1e-10 * max(np.abs(val).max(), 1):
            common.add_violation(res, "interpolate wrong for a large number of target points",
                                 {"n": nbig, "bad": int((np.abs(gotb - tri(*Tb)) > 1e-10 * max(np.abs(val).max(), 1)).sum())})
        else:
            res['nontrivial'].append(['many targets'] + tagbase)
    # points on the faces are accepted
    for side in range(6):
        T = [rng.uniform(lo[i], hi[i], 4) for i in range(3)]
        a = side // 2
        T[a][1] = lo[a] if side % 2 == 0 else hi[a]
        res['observations'] += 1
        try:
            got = numerical.interpolate(val, tuple(ax), tuple(T), method='linear')
            if np.abs(got - tri(*T)).max() > 1e-10 * max(np.abs(val).max(), 1):
                common.add_violation(res, "interpolate wrong on a face", {"side": side})
            else:
                res['nontrivial'].append(['face', side] + tagbase)
        except Exception as e:
            common.add_violation(res, "interpolate refuses a point on a face",
                                 {"side": side, "err": repr(e)[:200]})
    # points outside must be refused, on every side, however slightly outside
    for side in range(6):
        for eps in (1e-9, 0.3):
            T = [rng.uniform(lo[i], hi[i], 4) for i in range(3)]
            a = side // 2
            T[a][2] = (lo[a] - eps * d[a]) if side % 2 == 0 else (hi[a] + eps * d[a])
            res['observations'] += 1
            try:
                numerical.interpolate(val, tuple(ax), tuple(T), method='linear')
                common.add_violation(res, "interpolate accepts a point outside the grid",
                                     {"side": side, "eps": eps})
            except ValueError:
                res['nontrivial'].append(['outside', side, eps] + tagbase)
            except Exception as e:
                common.add_violation(res, "interpolate outside: unexpected exception type",
                                     {"side": side, "err": repr(e)[:200]})


def run_psi4(spec, res):
    from aurel import maths
    rng = np.random.default_rng([int(spec['seed']), 22])
    l0, m0 = spec['l0'], spec['m0']
    centre = tuple(rng.uniform(-0.3, 0.3, 3))
    A = (rng.uniform(0.5, 2.0) * np.exp(1j * rng.uniform(0, 2 * np.pi)))
    A = A * spec.get('amp', 1.0)        # extraction is linear: the amplitude must not matter
    radii = [float(rng.uniform(1.4, 1.8)), float(rng.uniform(0.8, 1.05)),
             float(rng.uniform(1.1, 1.35))]          # deliberately not ascending
    f = lambda r: r ** 2 * np.exp(-0.5 * r ** 2) + 0.3
    L = 5.0
    errs = []
    others = []
    for N in (spec['nfine'] // 2, spec['nfine']):
        d = L / (N - 1)
        lo = -L / 2
        fd = harness.make_fd(N, lo, d, order=4)
        x, y, z = harness.coords(N, lo, d)
        xs, ys, zs = x - centre[0], y - centre[1], z - centre[2]
        r = np.sqrt(xs ** 2 + ys ** 2 + zs ** 2)
        with np.errstate(all='ignore'):
            th = np.arccos(np.where(r > 0, zs / np.where(r > 0, r, 1), 1.0))
        ph = np.arctan2(ys, xs)
        psi4 = A * f(r) * maths.sYlm(-2, l0, m0, th, ph)
        rel = harness.make_rel(fd, {'Weyl_Psi4r': psi4.real.copy(),
                                    'Weyl_Psi4i': psi4.imag.copy()},
                               lmax=max(l0, 4), center=centre,
                               extract_radii=list(radii),
                               interp_method=spec['method'])
        axes0 = [fd.xarray.copy(), fd.yarray.copy(), fd.zarray.copy(), fd.cartesian_coords.copy()]
        try:
            with common.Quiet():
                lm_first = rel['Psi4_lm']
                # second evaluation on the same grid object (next iteration /
                # another AurelCore): must give the same modes
                rel2 = harness.make_rel(fd, {'Weyl_Psi4r': psi4.real.copy(),
                                             'Weyl_Psi4i': psi4.imag.copy()},
                                        lmax=max(l0, 4), center=centre,
                                        extract_radii=list(radii),
                                        interp_method=spec['method'])
                lm = rel2['Psi4_lm']
        except Exception as e:
            common.add_violation(res, f"Psi4_lm raises {type(e).__name__}", {"err": repr(e)[:300]})
            return
        # the real and the imaginary part go through the same interpolation:
        # the modes of (i * field) are i times the modes of the field
        if N == spec['nfine'] // 2:
            relj = harness.make_rel(fd, {'Weyl_Psi4r': (1j * psi4).real.copy(),
                                         'Weyl_Psi4i': (1j * psi4).imag.copy()},
                                    lmax=max(l0, 4), center=centre, extract_radii=list(radii),
                                    interp_method=spec['method'])
            with common.Quiet():
                lmj = relj['Psi4_lm']
            res['observations'] += 1
            worst = max(abs(lmj[R][k] - 1j * lm[R][k]) for R in radii for k in lm[R])
            if worst > 1e-9 * abs(A):
                common.add_violation(res, "Psi4_lm treats the real and the imaginary part differently",
                                     {"method": spec['method'], "err": float(worst / abs(A))})
                return
        res['observations'] += 2
        if not all(np.array_equal(a, b) for a, b in zip(
                axes0, [fd.xarray, fd.yarray, fd.zarray, fd.cartesian_coords])):
            common.add_violation(res, "Psi4_lm modifies the grid object", {"centre": centre})
            return
        if any(abs(lm_first[R][k] - lm[R][k]) > 1e-12 * abs(A) for R in radii for k in lm[R]):
            common.add_violation(res, "Psi4_lm differs between two evaluations on the same grid",
                                 {"centre": centre})
            return
        if sorted(lm.keys()) != sorted(radii):
            common.add_violation(res, "Psi4_lm radii keys", {"keys": list(lm.keys())})
            return
        e_main, e_oth = 0.0, 0.0
        for R in radii:
            want = A * f(R)
            modes = lm[R]
            if set(modes) != {(l, m) for l in range(max(l0, 4) + 1) for m in range(-l, l + 1)}:
                common.add_violation(res, "Psi4_lm mode keys", {})
                return
            e_main = max(e_main, abs(modes[l0, m0] - want) / abs(want))
            e_oth = max(e_oth, max(abs(v) for k, v in modes.items() if k != (l0, m0)) / abs(want))
        errs.append(e_main)
        others.append(e_oth)
    # lmax raised through the documented attribute after construction: the sphere
    # is sampled finely enough for the new lmax (no aliasing into the top modes)
    Nc, Lc = 12, 5.0
    dc = Lc / (Nc - 1)
    fdc = harness.make_fd(Nc, -Lc / 2, dc, order=2)
    xc, yc, zc = harness.coords(Nc, -Lc / 2, dc)
    rc = np.sqrt(xc ** 2 + yc ** 2 + zc ** 2)
    with np.errstate(all='ignore'):
        thc = np.arccos(np.where(rc > 0, zc / np.where(rc > 0, rc, 1), 1.0))
    p4c = f(rc) * maths.sYlm(-2, 2, 0, thc, np.arctan2(yc, xc))
    relc = harness.make_rel(fdc, {'Weyl_Psi4r': p4c.real.copy(), 'Weyl_Psi4i': p4c.imag.copy()},
                            lmax=2, extract_radii=[1.5])
    relc.lmax = 24
    with common.Quiet():
        lmc = relc['Psi4_lm'][1.5]
    res['observations'] += 1
    top = max(abs(v) for (l, m), v in lmc.items() if l >= 10)
    if max(l for l, m in lmc) != 24 or top > 0.2 * abs(f(1.5)):
        common.add_violation(res, "Psi4_lm after raising lmax: modes missing or aliased into the top degrees",
                             {"lmax_keys": max(l for l, m in lmc), "top_modes_rel": float(top / abs(f(1.5)))})
    res['observations'] += 4
    info = {"l0": l0, "m0": m0, "centre": centre, "radii": radii,
            "err_main": errs, "err_other": others, "method": spec['method']}
    if not (errs[1] < 0.05 and others[1] < 0.05):
        common.add_violation(res, "Psi4_lm does not recover the injected mode", info)
    elif not (errs[1] < errs[0] / 1.5 or errs[1] < 5e-3):
        common.add_violation(res, "Psi4_lm error does not fall with resolution", info)
    else:
        res['nontrivial'].append(['psi4', l0, m0, spec['method'], spec.get('amp', 1.0),
                                  [round(c, 3) for c in centre]])
    res['notes'].append(info)


def run_case(spec):
    res = common.new_result(spec)
    {'ortho': run_ortho, 'roundtrip': run_roundtrip, 'interp': run_interp,
     'psi4': run_psi4}[spec['kind']](spec, res)
    return res
