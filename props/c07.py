"""C07 - finite-difference operators are the stated-order derivative."""
from fractions import Fraction
from functools import lru_cache

import numpy as np

from lib import common, harness

LEVEL = "exploration"
EXHAUSTIVE = True
RULE = ("configuration space enumerated completely: fd_order in {2,4,6,8} x "
        "boundary in {no boundary, periodic, symmetric} x axis in {x,y,z} x N "
        "from 2 to Nmax (quick 22, thorough 96) on non-cubic grids with three "
        "different spacings. For each configuration the complete linear form "
        "of the operator is extracted by unit impulses along the axis and "
        "compared entry by entry with exact rational p-th-order weights "
        "(Fraction Vandermonde) on the documented node set (forward / centred "
        "/ backward, periodic wrap, mirror about the end points); random "
        "fields confirm superposition, single-point impulses confirm no "
        "cross-axis leakage, monomials up to degree p confirm exactness; "
        "tensor variants rank 0-3 must act component-wise with the derivative "
        "index first. Below the size where the node set exists the call must "
        "raise. non-trivial = distinct (order, boundary, N, axis) whose "
        "operator matrix was fully compared, plus (variant, rank) pairs")
ASSUMPTIONS = ["standard finite-difference weights = unique solution of the moment equations on the node set (exact rational arithmetic)"]
TIMEOUT = {"quick": 900, "thorough": 3000}
MIN_NONTRIVIAL = {"quick": 300, "thorough": 1500}

ORDERS = [2, 4, 6, 8]
BOUNDARIES = ['no boundary', 'periodic', 'symmetric']


@lru_cache(maxsize=None)
def weights(offsets):
    """Exact first-derivative weights on integer offsets (Fractions)."""
    n = len(offsets)
    A = [[Fraction(s) ** q for s in offsets] + [Fraction(1 if q == 1 else 0)]
         for q in range(n)]
    for c in range(n):
        piv = next(r for r in range(c, n) if A[r][c] != 0)
        A[c], A[piv] = A[piv], A[c]
        A[c] = [v / A[c][c] for v in A[c]]
        for r in range(n):
            if r != c and A[r][c] != 0:
                A[r] = [a - A[r][c] * b for a, b in zip(A[r], A[c])]
    return tuple(A[r][n] for r in range(n))


def min_size(p, boundary):
    m = p // 2
    return {'no boundary': max(p + 1, 2 * m), 'periodic': 1,
            'symmetric': m + 1}[boundary]


def oracle_matrix(p, boundary, N):
    """Rows of the documented operator (units of 1/dx), or None if the node
    set does not exist for this N."""
    m = p // 2
    if N < min_size(p, boundary):
        return None
    M = [[Fraction(0)] * N for _ in range(N)]
    cen = tuple(range(-m, m + 1))
    for i in range(N):
        if boundary == 'no boundary':
            if i < m:
                offs = tuple(range(0, p + 1))
            elif i >= N - m:
                offs = tuple(range(-p, 1))
            else:
                offs = cen
        else:
            offs = cen
        w = weights(offs)
        for s, wk in zip(offs, w):
            j = i + s
            if boundary == 'periodic':
                j %= N
            elif boundary == 'symmetric':
                if j < 0:
                    j = -j
                elif j > N - 1:
                    j = 2 * (N - 1) - j
            if not 0 <= j < N:
                return None
            M[i][j] += wk
    return np.array([[float(v) for v in row] for row in M])


def cases(tier, sd):
    nmax = 22 if tier == "quick" else 96
    out = []
    for p in ORDERS:
        for b in BOUNDARIES:
            for ax in range(3):
                out.append(dict(kind='operator', order=p, boundary=b, axis=ax,
                                nmax=nmax, seed=sd))
            out.append(dict(kind='tensor', order=p, boundary=b, seed=sd))
    for b in BOUNDARIES:
        for perm in ([8, 2, 6, 4], [2, 4, 6, 8], [6, 8, 4, 2]):
            out.append(dict(kind='sequence', boundary=b, orders=perm, seed=sd))
    return out


def make(p, b, shape, d):
    # the order as the caller happens to hold it: a Python int, a NumPy integer
    # (an element of an array, an HDF5 attribute) or a float
    how = (int(np.prod(shape)) + p) % 3
    order = [int(p), np.int64(p), float(p)][how]
    return harness.make_fd(shape, (-0.3, 0.2, 1.1), d, order=order, boundary=b)


def run_operator(spec, res):
    p, b, ax = spec['order'], spec['boundary'], spec['axis']
    rng = np.random.default_rng([int(spec['seed']), p, ax, 7])
    d = (0.25, 0.4, 0.125)          # three different spacings
    other = [(3, 2), (2, 3), (3, 4)][ax]
    for N in range(2, spec['nmax'] + 1):
        shape = list(other)
        shape.insert(ax, N)
        shape = tuple(shape)
        try:
            fd = make(p, b, shape, d)
        except Exception as e:
            res['notes'].append(f"constructor raised for N={N}: {e!r}"[:200])
            continue
        op = [fd.d3x, fd.d3y, fd.d3z][ax]
        M = oracle_matrix(p, b, N)
        tag = [p, b, N, 'xyz'[ax]]
        # ---- extract the linear form with unit impulses along the axis
        rows = None
        try:
            with common.Quiet(), np.errstate(all='raise'):
                cols = []
                for j in range(N):
                    f = np.zeros(shape)
                    idx = [slice(None)] * 3
                    idx[ax] = j
                    f[tuple(idx)] = 1.0
                    out = np.array(op(f))
                    if out.shape != shape:
                        raise AssertionError(f"shape {out.shape} != {shape}")
                    # constant along the other axes: every line identical
                    line = np.moveaxis(out, ax, 0).reshape(N, -1)
                    if np.abs(line - line[:, :1]).max() > 0:
                        raise AssertionError("response varies across lines")
                    cols.append(line[:, 0])
                rows = np.array(cols).T          # rows[i, j] = d(out_i)/d(f_j)
        except Exception as e:
            res['observations'] += 1
            if M is None:
                res['monitor']['raised_below_minimum'] = res['monitor'].get('raised_below_minimum', 0) + 1
                res['nontrivial'].append(tag + ['raises'])
            elif isinstance(e, AssertionError):
                common.add_violation(res, f"operator {b} order={p}: {e}", {"N": N, "axis": ax})
            else:
                # supported by the node set but refused by the code: allowed
                res['monitor']['raised_at_or_above_minimum'] = res['monitor'].get('raised_at_or_above_minimum', 0) + 1
                res['notes'].append(f"N={N} {b} p={p} raises {type(e).__name__}")
            continue
        res['observations'] += N * N
        if M is None:
            common.add_violation(
                res, f"silent result below minimum size, {b} order={p}",
                {"N": N, "axis": ax, "min": min_size(p, b)})
            continue
        want = M / d[ax]
        err = np.abs(rows - want).max()
        if err > 1e-13 * np.abs(want).max():
            i, j = np.unravel_index(np.abs(rows - want).argmax(), want.shape)
            where = ('left edge' if i < p // 2 else
                     'right edge' if i >= N - p // 2 else 'interior')
            common.add_violation(res, f"weights {b} order={p} {where}", {
                "N": N, "axis": ax, "row": int(i), "col": int(j),
                "got": float(rows[i, j]), "want": float(want[i, j])})
            continue
        # ---- superposition on a random field, all lines at once
        f = rng.normal(size=shape)
        with common.Quiet():
            out = np.array(op(f))
        ref = np.moveaxis(np.tensordot(want, np.moveaxis(f, ax, 0), axes=(1, 0)), 0, ax)
        res['observations'] += 1
        if np.abs(out - ref).max() > 1e-11 * max(np.abs(ref).max(), 1):
            common.add_violation(res, f"superposition {b} order={p}", {"N": N, "axis": ax})
            continue
        # ---- a real field stored with an integer dtype
        fi = rng.integers(-9, 10, size=shape)
        with common.Quiet():
            try:
                out = np.array(op(fi))
            except Exception as e:
                out = e
        ref = np.moveaxis(np.tensordot(want, np.moveaxis(fi.astype(float), ax, 0), axes=(1, 0)), 0, ax)
        res['observations'] += 1
        if isinstance(out, Exception) or out.shape != ref.shape or \
                np.abs(out - ref).max() > 1e-11 * max(np.abs(ref).max(), 1):
            common.add_violation(res, f"integer-dtype field {b} order={p}", {"N": N, "axis": ax})
            continue
        # ---- single-point impulse: response stays on the grid line
        pt = tuple(int(rng.integers(0, s)) for s in shape)
        f = np.zeros(shape)
        f[pt] = 1.0
        with common.Quiet():
            out = np.array(op(f))
        mask = np.ones(shape, bool)
        idx = list(pt)
        idx[ax] = slice(None)
        mask[tuple(idx)] = False
        res['observations'] += 1
        if np.abs(out[mask]).max(initial=0) > 0:
            common.add_violation(res, f"cross-axis leakage {b} order={p}", {"N": N, "axis": ax})
            continue
        line = out[tuple(idx)]
        if np.abs(line - want[:, pt[ax]]).max() > 1e-13 * np.abs(want).max():
            common.add_violation(res, f"point impulse {b} order={p}", {"N": N, "axis": ax})
            continue
        # ---- node set: a non-finite sample (excised point, puncture) spoils
        # exactly the outputs whose stencil contains it, no others
        if N <= 40:
            for j in sorted({0, N // 2, N - 1, int(rng.integers(0, N))}):
                f = rng.normal(size=shape)
                idx = [slice(None)] * 3
                idx[ax] = j
                f[tuple(idx)] = np.nan
                with common.Quiet(), np.errstate(all='ignore'):
                    out = np.array(op(f))
                bad = np.isnan(np.moveaxis(out, ax, 0).reshape(N, -1))
                res['observations'] += 1
                nz = want[:, j] != 0
                if b == 'symmetric' or (b == 'periodic' and N < p + 1):
                    # a sample can enter one stencil twice (mirrored / wrapped
                    # ghost nodes) with weights that cancel: only bounds
                    near = np.abs(np.arange(N) - j) <= p // 2
                    if b == 'periodic':
                        near[:] = True
                    ok_set = (np.all(bad.any(axis=1)[nz]) and not np.any(bad.any(axis=1)[~near])
                              and np.array_equal(bad.any(axis=1), bad.all(axis=1)))
                else:
                    ok_set = (np.array_equal(bad.any(axis=1), nz)
                              and np.array_equal(bad.all(axis=1), nz))
                if not ok_set:
                    i = int(np.argmax(bad.any(axis=1) != (want[:, j] != 0)))
                    common.add_violation(res, f"stencil node set (NaN sample) {b} order={p}", {
                        "N": N, "axis": ax, "nan_at": j, "row": i,
                        "output_is_nan": bool(bad[i].any()), "weight_is_zero": bool(want[i, j] == 0)})
                    break
            else:
                j = None
            if j is not None:
                continue
        # ---- exact on monomials up to degree p (open boundaries only)
        if b == 'no boundary':
            xs = [fd.xarray, fd.yarray, fd.zarray][ax][:N]
            xs = np.asarray(xs, float)
            c = xs - xs.mean()
            sh = [1, 1, 1]
            sh[ax] = N
            for q in range(p + 1):
                f = np.broadcast_to((c ** q).reshape(sh), shape).copy()
                with common.Quiet():
                    out = np.array(op(f))
                ref = np.broadcast_to((q * c ** max(q - 1, 0) * (q > 0)).reshape(sh), shape)
                res['observations'] += 1
                scale = max(np.abs(c).max() ** max(q - 1, 0) * max(q, 1), 1.0) / d[ax] * d[ax]
                if np.abs(out - ref).max() > 1e-9 * scale * max(1.0, np.abs(c).max() / d[ax]):
                    common.add_violation(res, f"monomial exactness {b} order={p}",
                                         {"N": N, "axis": ax, "degree": q,
                                          "err": float(np.abs(out - ref).max())})
                    break
        res['nontrivial'].append(tag)


def run_tensor(spec, res):
    p, b = spec['order'], spec['boundary']
    rng = np.random.default_rng([int(spec['seed']), p, 99])
    N0 = max(min_size(p, b), 3 * p // 2)
    shape = (N0 + 2, N0, N0 + 1)
    d = (0.25, 0.4, 0.125)
    fd = make(p, b, shape, d)
    sc = [fd.d3x, fd.d3y, fd.d3z]

    def cmpv(label, got, want):
        res['observations'] += 1
        got = np.asarray(got)
        if got.shape != want.shape:
            common.add_violation(res, f"{label} shape", {"got": got.shape, "want": want.shape})
        elif not np.array_equal(got, want):
            common.add_violation(res, label, {"max": float(np.abs(got - want).max())})
        else:
            res['nontrivial'].append([label, p, b])
    with common.Quiet():
        f0 = rng.normal(size=shape)
        f1 = rng.normal(size=(3,) + shape)
        f2 = rng.normal(size=(3, 3) + shape)
        f2[0, 1] *= 1e-10          # a tiny but non-zero component is still differentiated
        f2[2, 2] *= 1e-300
        f3 = rng.normal(size=(3, 3, 3) + shape)
        f1b = rng.normal(size=(4,) + shape)       # 4-vectors are used too
        D0 = np.array([s(f0) for s in sc])
        cmpv("d3_scalar", fd.d3_scalar(f0), D0)
        D1 = np.array([[s(f1[j]) for j in range(3)] for s in sc])
        cmpv("d3_rank1tensor", fd.d3_rank1tensor(f1), D1)
        D1b = np.array([[s(f1b[j]) for j in range(4)] for s in sc])
        cmpv("d3_rank1tensor(4)", fd.d3_rank1tensor(f1b), D1b)
        D2 = np.array([[[s(f2[k, j]) for j in range(3)] for k in range(3)] for s in sc])
        cmpv("d3_rank2tensor", fd.d3_rank2tensor(f2), D2)
        D3 = np.array([[[[s(f3[k, j, i]) for i in range(3)] for j in range(3)]
                        for k in range(3)] for s in sc])
        cmpv("d3_rank3tensor", fd.d3_rank3tensor(f3), D3)
        for a, nm in enumerate('xyz'):
            cmpv(f"d3{nm}_rank1tensor", getattr(fd, f"d3{nm}_rank1tensor")(f1), D1[a])
            cmpv(f"d3{nm}_rank2tensor", getattr(fd, f"d3{nm}_rank2tensor")(f2), D2[a])
            cmpv(f"d3{nm}_rank3tensor", getattr(fd, f"d3{nm}_rank3tensor")(f3), D3[a])
        # the input must not be modified
        g = f2.copy()
        fd.d3_rank2tensor(f2)
        cmpv("input untouched", f2, g)
        # the caller re-fills the SAME array object between calls (a work array):
        # the result must follow the current content (doubling is exact in binary)
        for label, fn, arr in (("d3_scalar", fd.d3_scalar, f0), ("d3x", fd.d3x, f0),
                               ("d3_rank1tensor", fd.d3_rank1tensor, f1),
                               ("d3_rank2tensor", fd.d3_rank2tensor, f2)):
            ref = np.array(fn(arr))
            arr *= 2.0
            cmpv(f"{label} on a re-filled array object", fn(arr), 2.0 * ref)
            new = rng.normal(size=arr.shape)
            want = np.array(fn(new.copy()))
            arr[...] = new
            cmpv(f"{label} on an overwritten array object", fn(arr), want)
    # y/z operators are the x operator under axis exchange (non-cubic grid)
    with common.Quiet():
        f = rng.normal(size=shape)
        for a, nm in ((1, 'y'), (2, 'z')):
            perm = [0, 1, 2]
            perm[0], perm[a] = perm[a], perm[0]
            shp2 = tuple(np.array(shape)[perm])
            d2 = tuple(np.array(d)[perm])
            fd2 = make(p, b, shp2, d2)
            want = np.transpose(fd2.d3x(np.transpose(f, perm)), perm)
            cmpv(f"d3{nm} = d3x under axis exchange", sc[a](f), np.array(want))


def run_sequence(spec, res):
    """Objects of different orders built and used one after the other in ONE
    process on axes of equal length (state shared between objects shows here)."""
    b = spec['boundary']
    rng = np.random.default_rng([int(spec['seed']), 71])
    d = (0.25, 0.4, 0.125)
    N = 14
    shape = (N, N, N)
    f = rng.normal(size=shape)
    fds = [(p, make(p, b, shape, d)) for p in spec['orders']]
    for rnd in range(2):
        for p, fd in fds:
            for ax, op in enumerate([fd.d3x, fd.d3y, fd.d3z]):
                M = oracle_matrix(p, b, N) / d[ax]
                ref = np.moveaxis(np.tensordot(M, np.moveaxis(f, ax, 0), axes=(1, 0)), 0, ax)
                res['observations'] += 1
                try:
                    with common.Quiet():
                        out = np.array(op(f))
                    ok = out.shape == ref.shape and np.abs(out - ref).max() <= 1e-11 * np.abs(ref).max()
                except Exception as e:
                    ok = False
                if not ok:
                    common.add_violation(res, f"operator wrong after objects of other orders were used ({b})",
                                         {"order": p, "sequence": spec['orders'], "axis": ax})
                    return
                res['nontrivial'].append(['sequence', b, p, ax, rnd, str(spec['orders'])])


def run_case(spec):
    res = common.new_result(spec)
    {'operator': run_operator, 'tensor': run_tensor, 'sequence': run_sequence}[spec['kind']](spec, res)
    return res
