#!/venv/bin/python
"""Entry point of every check: check.py <ID> [--tier quick|thorough] ...

exit 0  property held on everything explored
exit 1  unlisted violation (prints VIOLATION property=<id> replay=<path>)
exit 2  inconclusive (monitor not reached / watchdog / harness error)
"""
import argparse
import importlib
import json
import os
import sys

ROOT = os.path.dirname(os.path.abspath(__file__))
sys.path.insert(0, ROOT)

from lib import common  # noqa: E402


def main():
    ap = argparse.ArgumentParser()
    ap.add_argument("pid")
    ap.add_argument("--tier", default=None)
    ap.add_argument("--seed", type=int, default=None)
    ap.add_argument("--shard", default=None)
    ap.add_argument("--out", default=None)
    ap.add_argument("--replay", default=None)
    ap.add_argument("--nshards", type=int, default=None)
    a = ap.parse_args()
    tier = a.tier or common.tier_default()
    sd = a.seed if a.seed is not None else common.seed()
    common.setup_repo_path()
    mod = importlib.import_module("props." + a.pid.lower())
    if a.replay:
        with open(a.replay) as f:
            rep = json.load(f)
        res = mod.run_case(rep["spec"])
        print(json.dumps(common.to_jsonable(
            {k: res[k] for k in ("status", "violations", "notes")}), indent=1))
        return 1 if res["status"] == "violated" else 0
    if a.shard:
        s, n = a.shard.split("/")
        common.run_shard(mod, tier, sd, int(s), int(n), a.out)
        return 0
    return common.run_parent(a.pid, mod, tier, sd, nshards=a.nshards)


if __name__ == "__main__":
    sys.exit(main())
