#!/usr/bin/env python3
"""Regenerate seeded/README.md from seeded/*/meta.json."""
import glob
import json
import os

ROOT = os.path.dirname(os.path.dirname(os.path.abspath(__file__)))


def main():
    rows = []
    for f in sorted(glob.glob(os.path.join(ROOT, "seeded", "*", "meta.json"))):
        m = json.load(open(f))
        needs = " ".join(m.get("needs", "").split())
        first = needs[:230] + ("..." if len(needs) > 230 else "")
        mech = []
        for c in m.get("caught_by", []):
            mech += [f"{c}: {x}" for x in m["checks"][c]["mechanisms"][:2]]
        rows.append((m["id"], m["property"], ", ".join(m.get("caught_by", [])) or "**missed**",
                     "; ".join(mech)[:260], first))
    out = ["# Seeded changes\n",
           "Each directory holds a change to robynlm/aurel written by a sub-agent that saw only the",
           "text of one property (`patch.diff`), its own demonstration (`demo.py`: exit 0 when the",
           "property holds, non-zero when it is violated) and `meta.json` (what the change needs to",
           "manifest, what was run to confirm it, and the verdict of the quick tier of the named",
           "checks run against a scratch copy with the change applied). A change is kept only after",
           "`tools/seeded_eval.py` confirmed: demo passes on the clean tree, the repository suite is",
           "unchanged with the change (510 passed + the 2 known checkpoint failures), demo fails with it.\n",
           "| id | property | caught by (quick tier) | mechanism reported | what it needs |",
           "|---|---|---|---|---|"]
    for r in rows:
        out.append("| " + " | ".join(x.replace("|", "/") for x in r) + " |")
    caught = sum(1 for r in rows if r[2] != "**missed**")
    out.append(f"\n{caught} of {len(rows)} confirmed changes are caught by the quick tier of at least one check.")
    with open(os.path.join(ROOT, "seeded", "README.md"), "w") as f:
        f.write("\n".join(out) + "\n")
    print(f"{caught}/{len(rows)} caught")


main()
