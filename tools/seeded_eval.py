#!/venv/bin/python
"""Confirm a sub-agent's seeded change and record what the checks say.

usage: tools/seeded_eval.py <mutant dir with patch.diff, demo.py, README.txt>
                            <seeded id, e.g. C05-m1> <property id> [more check ids]

Steps (all in a private git worktree of /repo under /tmp, removed at the end):
  1. demo.py on the clean tree must exit 0;
  2. apply patch.diff; the repository suite must give the baseline result
     (510 passed, the 2 known checkpoint failures);
  3. demo.py must exit non-zero with the change;
  4. the quick tier of the property's check (and any extra ids) is run against
     the changed copy through VERIF_REPO; its verdict lines are recorded.
Only when 1-3 hold is the change kept under /verif/seeded/<id>/.
"""
import json
import os
import re
import shutil
import subprocess
import sys
import tempfile

ROOT = os.path.dirname(os.path.dirname(os.path.abspath(__file__)))
PY = "/venv/bin/python"


def sh(cmd, cwd=None, env=None, timeout=3000):
    p = subprocess.run(cmd, shell=True, cwd=cwd, env=env, capture_output=True,
                       text=True, timeout=timeout)
    return p.returncode, (p.stdout + p.stderr)


def main():
    args = [a for a in sys.argv[1:] if a != "--checks-only"]
    checks_only = "--checks-only" in sys.argv      # keep the recorded suite result, redo demo + checks
    mdir, sid, pid = args[0], args[1], args[2]
    extra = args[3:]
    wt = tempfile.mkdtemp(prefix="evalwt_", dir="/tmp")
    os.rmdir(wt)
    rc, out = sh(f"git -C /repo worktree add --detach {wt} HEAD")
    assert rc == 0, out
    env = dict(os.environ, PYTHONPATH=f"{wt}/src", PYTHONDONTWRITEBYTECODE="1")
    meta = {"id": sid, "property": pid, "ran": []}
    keep = False
    try:
        demo = os.path.join(mdir, "demo.py")
        patch = os.path.join(mdir, "patch.diff")
        rc0, out0 = sh(f"{PY} {demo}", cwd=wt, env=env, timeout=1800)
        meta["ran"].append({"cmd": "demo.py on clean tree", "exit": rc0})
        rc, out = sh(f"git apply {patch}", cwd=wt)
        if rc != 0:
            meta["ran"].append({"cmd": "git apply", "exit": rc, "out": out[-300:]})
            print(json.dumps(meta, indent=1))
            return 2
        prev = None
        if checks_only and os.path.exists(os.path.join(mdir, "meta.json")):
            pm = json.load(open(os.path.join(mdir, "meta.json")))
            prev = next((r for r in pm.get("ran", []) if "test suite" in r.get("cmd", "")), None)
        if prev is not None:
            tests_ok = bool(prev.get("baseline_unchanged"))
            meta["ran"].append(prev)
        else:
            rc, out = sh(f"{PY} -m pytest -q -p no:cacheprovider --timeout=900 tests", cwd=wt, env=env)
            tail = out.strip().splitlines()[-1] if out.strip() else ""
            m = re.search(r"(\d+) failed, (\d+) passed", tail)
            tests_ok = bool(m and m.group(1) == "2" and m.group(2) == "510"
                            and "test_read_ET_data_with_checkpoints" in out
                            and "test_read_ET_checkpoints_across_restarts" in out)
            meta["ran"].append({"cmd": "repository test suite with the change", "summary": tail,
                                "baseline_unchanged": tests_ok})
        rc1, out1 = sh(f"{PY} {demo}", cwd=wt, env=env, timeout=1800)
        meta["ran"].append({"cmd": "demo.py with the change", "exit": rc1,
                            "out": out1.strip()[-400:]})
        confirmed = (rc0 == 0 and rc1 != 0 and tests_ok)
        meta["confirmed"] = confirmed
        caught = {}
        for cid in [pid] + extra:
            e2 = dict(os.environ, VERIF_REPO=wt)
            rc, out = sh(f"{PY} {ROOT}/check.py {cid} --tier quick", cwd=ROOT, env=e2, timeout=3000)
            lines = [l.strip() for l in out.splitlines()
                     if "mechanism:" in l or f"{cid} tier=" in l or "INCONCLUSIVE" in l]
            mechs = sorted({l.split("mechanism:", 1)[1].strip() for l in lines if "mechanism:" in l})
            caught[cid] = {"exit": rc, "mechanisms": mechs[:8],
                           "summary": next((l for l in lines if " tier=" in l), "")}
        meta["checks"] = caught
        meta["caught_by"] = [c for c, v in caught.items() if v["exit"] == 1]
        keep = confirmed
        readme = os.path.join(mdir, "README.txt")
        old = os.path.join(mdir, "meta.json")
        if os.path.exists(readme):
            meta["needs"] = open(readme).read().strip()
        elif os.path.exists(old):
            meta["needs"] = json.load(open(old)).get("needs", "")
        else:
            meta["needs"] = ""
        if keep:
            dst = os.path.join(ROOT, "seeded", sid)
            os.makedirs(dst, exist_ok=True)
            if os.path.abspath(dst) != os.path.abspath(mdir):
                shutil.copy(patch, os.path.join(dst, "patch.diff"))
                shutil.copy(demo, os.path.join(dst, "demo.py"))
            with open(os.path.join(dst, "meta.json"), "w") as f:
                json.dump(meta, f, indent=1)
        print(json.dumps({k: meta[k] for k in ("id", "confirmed", "caught_by")}, indent=None))
        for c, v in caught.items():
            print("  ", c, v["summary"], v["mechanisms"][:3])
    finally:
        sh(f"git -C /repo worktree remove --force {wt}")
        shutil.rmtree(wt, ignore_errors=True)
    return 0


if __name__ == "__main__":
    sys.exit(main())
