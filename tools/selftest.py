#!/venv/bin/python
"""setup_cmd: import check + self-test of the trusted oracles (offline)."""
import os, sys
ROOT = os.path.dirname(os.path.dirname(os.path.abspath(__file__)))
sys.path.insert(0, ROOT)
import numpy as np
from lib import spacetimes as S

def main():
    xs = np.linspace(-1, 1, 5)
    x, y, z = np.meshgrid(xs, xs, xs, indexing='ij')
    o = S.exact_fields(S.PulledBack(1, 'minkowski'), 0.3, x, y, z)
    assert abs(o['st_Riemann_down4']).max() < 1e-13, "flat space must have zero curvature"
    o = S.exact_fields(S.PulledBack(2, 'kasner'), 0.3, x, y, z)
    assert abs(o['st_Ricci_down4']).max() < 1e-12, "Kasner must be Ricci flat"
    assert abs(o['st_Riemann_down4']).max() > 1e-3
    o = S.exact_fields(S.ADMTrig(3), 0.3, x, y, z)
    R = o['st_Riemann_down4']
    assert abs(R + np.einsum('abcd...->bacd...', R)).max() < 1e-13
    assert abs(R + np.einsum('abcd...->acdb...', R) + np.einsum('abcd...->adbc...', R)).max() < 1e-13
    import aurel  # noqa: F401  the repository must import
    print("selftest ok")

main()
