#!/bin/bash
# usage: tools/sweep.sh <tier> "<seeds>" "<ids>"   -- prints one summary line per run
tier=$1; seeds=$2; ids=$3
for sd in $seeds; do for p in $ids; do
  VERIF_SEED=$sd /venv/bin/python check.py $p --tier $tier 2>&1 | grep -E "mechanism|$p tier|HARNESS|INCONCL|VIOLATION|KNOWN" | head -12
done; done
