#!/usr/bin/env python3
"""Regenerate MANIFEST.json from the table below (keeps it schema-valid)."""
import json, os
ROOT = os.path.dirname(os.path.dirname(os.path.abspath(__file__)))
PY = "/venv/bin/python"
ENG = {
 "jets": ("exact-jet oracle + two-grid convergence verdict", "lib/jets.py lib/spacetimes.py lib/conv.py lib/engine.py"),
 "history": ("request-history engine with array ledger, core probe and branch trace", "lib/monitor.py lib/history.py"),
 "operator": ("linear-form extraction of the FD operators vs exact rational weights", "props/c07.py"),
 "algebra": ("pointwise algebra vs numpy.linalg under FP-exception trapping", "props/c08.py"),
 "etgen": ("Einstein Toolkit directory generator with closed-form ground truth", "lib/etgen.py"),
 "iomodel": ("reference-model monitor for save_data/read_data", "props/c13.py"),
 "symbolic": ("independent sympy reference evaluated at rational points", "props/c15.py"),
 "grid": ("grid-object invariants over parameter sweeps", "props/c16.py"),
 "harmonics": ("quadrature/orthonormality and synthetic-sphere monitors", "props/c20.py"),
}
# id: (engine, technique, level text, level note, design ref)
CHECKS = {}
def add(pid, engine, technique, text, note, ref):
    CHECKS[pid] = (engine, technique, text, note, ref)

def load_table():
    import importlib.util
    spec = importlib.util.spec_from_file_location("mt", os.path.join(ROOT, "tools", "manifest_table.py"))
    m = importlib.util.module_from_spec(spec); spec.loader.exec_module(m)
    return m

def main():
    t = load_table()
    props = [json.loads(l)["id"] for l in open(os.path.join(ROOT, "properties.jsonl"))]
    checks = []
    for pid in props:
        if pid not in t.CLAIMED:
            continue
        c = t.CLAIMED[pid]
        checks.append({
            "property_id": pid,
            "quick_cmd": f"{PY} check.py {pid} --tier quick",
            "thorough_cmd": f"{PY} check.py {pid} --tier thorough",
            "evidence_file": f"/verif/evidence/{pid}.json",
            "replay_cmd_template": f"{PY} check.py {pid} --replay {{path}}",
            "engine": c["engine"],
            "level_claimed": {"category": c.get("category", "exploration"), "text": c["text"], "design_ref": c["ref"]},
            "level_note": c["note"],
            "technique": c["technique"],
        })
    na = [{"property_id": p, "reason": t.NOT_APPLICABLE.get(p, "check not built yet in this session (work in progress); see DESIGN.md section 2 for the planned monitor")}
          for p in props if p not in t.CLAIMED]
    man = {
        "version": 1,
        "setup_cmd": f"{PY} tools/selftest.py",
        "hooks": {"guard": "AUREL_VERIF", "enable": "no source hooks: all instrumentation is installed from /verif at import time (monkey-patch wrappers, sys.monitoring, h5py interposition); checks import aurel from /repo/src (editable install) so they always run the current working tree",
                  "baseline_off_cmd": "cd /repo && /venv/bin/python -m pytest -ra -q -p no:cacheprovider --timeout=900 --continue-on-collection-errors",
                  "source_commits": [], "add_only": True},
        "engines": [{"name": k, "path": v[1], "serves_properties": [p for p in props if p in t.CLAIMED and t.CLAIMED[p]["engine"] == k], "kind_free_text": v[0]} for k, v in ENG.items()],
        "checks": checks,
        "notes": t.NOTES,
        "not_applicable": na,
    }
    json.dump(man, open(os.path.join(ROOT, "MANIFEST.json"), "w"), indent=1)
    print("wrote MANIFEST.json with", len(checks), "checks;", len(na), "unclaimed")
main()
