#!/bin/bash
# usage: tools/try_mutant.sh <patch.diff> "<ids>" [tier]  -- runs the checks against a scratch copy of /repo with the patch applied
patch=$1; ids=$2; tier=${3:-quick}
d=$(mktemp -d /tmp/mutXXXXXX)
cp -r /repo/src $d/src
if ! patch -s -p1 -d $d < $patch; then echo "PATCH FAILED"; rm -rf $d; exit 3; fi
for p in $ids; do
  VERIF_REPO=$d /venv/bin/python /verif/check.py $p --tier $tier 2>&1 | grep -E "mechanism|$p tier|HARNESS|INCONCL" | sort | uniq -c | head -${MAXL:-6}
done
rm -rf $d
