NOTES = ("Runtime monitoring of a pure-Python numerical library: real functions are run on generated hostile "
         "workloads and every observation is judged by an independent oracle. exit 0 held / 1 violation / 2 inconclusive. "
         "Genuine defects found and repaired are listed in known_findings.json (fixed entries); open findings print KNOWN-FINDING lines.")
NOT_APPLICABLE = {}
CLAIMED = {
 "C04": dict(engine="jets", technique="runtime oracle monitoring: exact-jet reference + two-grid convergence verdict per component class",
   text="Exploration: the real AurelCore is run on seeded spacetime families (3+1 trig spacetimes with shift/lapse/shear switches, gauge-transformed Minkowski and Kasner), orders 2-8, open and periodic grids; every 4D key is compared per component class with exact values. Held = observed to converge (or be exact to round-off) on every sampled case; not a proof over all spacetimes.",
   note="Trusted base: lib/jets.py oracle (closed-form sinusoid derivatives, 2nd-order AD, numpy.linalg), self-checked on flat and Kasner space each run; convergence rule needs ratio >= 2^(p-2) so a loss of more than one order or any O(1) formula error is detected, errors below 1e-9*scale are not.",
   ref="2 C04, 1.1, 1.2"),
 "C05": dict(engine="jets", technique="runtime oracle monitoring: helper calls and spatial-curvature keys vs textbook formulas on exact Christoffels and exact derivatives of random test fields; two-grid convergence verdict",
   text="Exploration: every supported index pattern of s_covd/st_covd/s_div/s_curl/Lie_beta (5 density weights), both arms of s_Ricci_down3 and the BSSNOK split are observed on seeded curved metrics with shift, orders 2-8, open and periodic grids, and judged per component class; invalid-argument calls must raise. Held = converged on everything sampled.",
   note="Trusted base as C04 plus closed-form derivatives of sinusoid test fields; 'u'/'d' semantics taken from the docstrings.",
   ref="2 C05"),
 "C06": dict(engine="jets", technique="runtime oracle monitoring: constraints vs 0 and dt-quantities vs exact t-derivatives of the exact fields; two-grid convergence verdict",
   text="Exploration: every smooth metric is an exact solution for T=(G+Lambda g)/kappa, so Hamiltonian/momentum constraints and the six dt-quantities are observed on general-gauge members (shift, time-dependent lapse, sheared metrics, Lambda of both signs) and on gauge-transformed Minkowski/Kasner with vacuum=True, and must converge to 0 / to the true coordinate-time derivative.",
   note="Trusted base as C04; exact t-derivatives by 8th-order differences in t of exact fields (truncation < 1e-13).",
   ref="2 C06"),
 "C19": dict(engine="jets", technique="runtime oracle monitoring: kinematic keys of the default Eulerian fluid vs the 3+1 identities; two-grid convergence verdict",
   text="Exploration: with the fluid left at its defaults, uup4, theta, theta/shear tensors (all 16 components), shear2, vorticity and the acceleration (incl. its normal component) are observed on members with time-dependent lapse, shift and sheared metrics and compared with n^mu, -K, -A_ij, A^2, 0 and D_i ln(alpha).",
   note="Trusted base as C04.",
   ref="2 C19"),
 "C10": dict(engine="jets", technique="runtime oracle monitoring: Weyl tensor in both cache states, E/B, Weyl scalars on the returned tetrad, tetrad orthonormality and invariants vs exact Weyl from metric jets; two-grid convergence verdict",
   text="Exploration: st_Weyl_down4 is observed on a fresh instance (E/B construction) and after st_Riemann_down4 was cached (Riemann construction), on non-vacuum members with general gauge and on gauge-transformed Minkowski/Kasner with vacuum=True; E/B (n- and u-frame), the five Weyl scalars for both tetrad choices, triad/Lorentz orthonormality, I and J against a randomly Lorentz-rotated harness tetrad, and the Levi-Civita tensors are judged per component class.",
   note="Trusted base as C04; E/B sign conventions are those of the documented u-frame contractions; quasi-Kinnersley invariants judged only on alpha=1, beta=0 members and off the polar axis.",
   ref="2 C10"),
 "C08": dict(engine="algebra", technique="runtime oracle monitoring: aurel.maths and algebraic AurelCore keys vs numpy.linalg per point, with numpy floating-point exceptions trapped (np.errstate(all='raise')) around every call",
   text="Exploration: closed-form determinants/inverses, formatting and (anti)symmetrisation on random matrices of four conditioning classes, six shapes (incl. 1-point axes, 0-d) and two dtypes, as arrays and as component lists; 40 algebraic AurelCore keys plus ten defining identities on random lapse/shift/SPD metric/K given as tensors or as components (both gdet arms); safe_division over ~4.5k operand-kind pairs with the FP trap armed; populate_4Riemann placement and exact symmetries; symmetries of the curvature outputs that are exact by construction.",
   note="Reference numpy.linalg; tolerance max(1e4*eps*cond, 100*eps*cond^2) because cofactor inverses are not backward stable (cond<=2e4 in the generators).",
   ref="2 C08"),
 "C09": dict(engine="jets", technique="runtime oracle monitoring: fluid/projection keys vs harness closed forms at every grid point for four documented input combinations",
   text="Exploration: 40 fluid, stress-energy, Eulerian-projection and conserved keys are observed for inputs {rho0+eps+press+W+v, rho only, rho+rho0, Tdown4 direct} on 3+1 backgrounds with shift, non-unit lapse and sheared metrics, |v| up to 0.99, rest-mass density with exact zeros; both request orders (fresh / Tdown4 and st_Ricci_down4 first) so both arms of Ttrace and st_Ricci_down3 are reached.",
   note="Closed forms in numpy; tolerance 1e-9*max|expected| + 1e-12.",
   ref="2 C09"),
}
