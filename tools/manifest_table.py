NOTES = ("Runtime monitoring of a pure-Python numerical library: real functions are run on generated hostile "
         "workloads and every observation is judged by an independent oracle. exit 0 held / 1 violation / 2 inconclusive. "
         "Genuine defects found and repaired are listed in known_findings.json (fixed entries); open findings print KNOWN-FINDING lines.")
NOT_APPLICABLE = {}
CLAIMED = {
 "C04": dict(engine="jets", technique="runtime oracle monitoring: exact-jet reference + two-grid convergence verdict per component class",
   text="Exploration: the real AurelCore is run on seeded spacetime families (3+1 trig spacetimes with shift/lapse/shear switches, gauge-transformed Minkowski and Kasner), orders 2-8, open and periodic grids; every 4D key is compared per component class with exact values. Held = observed to converge (or be exact to round-off) on every sampled case; not a proof over all spacetimes.",
   note="Trusted base: lib/jets.py oracle (closed-form sinusoid derivatives, 2nd-order AD, numpy.linalg), self-checked on flat and Kasner space each run; convergence rule needs ratio >= 2^(p-2) so a loss of more than one order or any O(1) formula error is detected, errors below 1e-9*scale are not.",
   ref="2 C04, 1.1, 1.2"),
}
