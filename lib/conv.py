"""Convergence verdict (DESIGN 1.2).

A finite-difference quantity "equals" its exact value when the error on a
common physical window falls, between a grid and the grid with half the
spacing, at least like order p-1 (expected p), or is already at the floor.
No hand-tuned absolute tolerance is used.
"""
import itertools

import numpy as np

FLOOR = 1e-9
ABS_FLOOR = 1e-12      # round-off of O(1) fields differentiated twice


def index_classes(shape_prefix, dim_time=True):
    """Group tensor components by which indices are temporal (4D only).

    Returns {label: boolean mask over the component indices}."""
    if not shape_prefix:
        return {"scalar": np.ones((), bool)}
    if not all(s == 4 for s in shape_prefix) or not dim_time:
        return {"all": np.ones(shape_prefix, bool)}
    out = {}
    for idx in itertools.product(range(4), repeat=len(shape_prefix)):
        lab = "".join("t" if i == 0 else "s" for i in idx)
        if len(shape_prefix) >= 3:
            # keep the first (contravariant or first-pair) index position,
            # count time indices in the rest
            lab = lab[0] + "".join(sorted(lab[1:]))
        m = out.setdefault(lab, np.zeros(shape_prefix, bool))
        m[idx] = True
    return out


def window(n_coarse, margin):
    return slice(margin, n_coarse - margin)


def errors(code, exact, coarse_stride, n_coarse, margin):
    """max-abs error per component on the coarse nodes inside the window.

    code/exact: (..., Nx, Ny, Nz) on a grid whose every `coarse_stride`-th
    node is a coarse node."""
    s = coarse_stride
    sl = tuple(slice(margin[i] * s, (n_coarse[i] - margin[i] - 1) * s + 1, s)
               for i in range(3))
    I = (Ellipsis,) + sl
    diff = np.abs(np.asarray(code)[I] - np.asarray(exact)[I])
    ax = tuple(range(diff.ndim - 3, diff.ndim))
    return diff.max(axis=ax), np.abs(np.asarray(exact)[I]).max(axis=ax)


def roundoff_floor(d_fine):
    """Round-off of an O(1) field differentiated twice with spacing d: the
    (one-sided, up to 8th order) stencils have sum |w| up to ~50, each pass
    multiplies the noise by that over d."""
    return max(ABS_FLOOR, np.finfo(float).eps * (50.0 / d_fine) ** 2)


def judge(e1, e2, scale, order, refine=2.0, lose=1, abs_floor=ABS_FLOOR):
    """Three-valued verdict for one (quantity, component class)."""
    if not np.isfinite(e1) or not np.isfinite(e2):
        return "violated", "non-finite error"
    if e2 <= abs_floor and e1 <= 1e3 * abs_floor:
        return "held", "round-off floor"
    if scale <= 0 or not np.isfinite(scale):
        return "inconclusive", "vanishing scale"
    if e2 <= FLOOR * scale:
        return "held", "floor"
    ratio = e1 / e2
    need = max(refine ** (order - lose - 1), refine if lose == 1 else 1.5)
    if ratio >= need and e2 <= 0.25 * scale:
        return "held", f"ratio {ratio:.1f}>={need:.0f}"
    # "marginal": clearly converging, only not yet at the asymptotic rate (or
    # still large) on this pair of grids; the caller may retry on a finer pair
    marginal = ratio >= max(1.8, need / 4.0)
    return ("violated", f"ratio {ratio:.2f} < {need:.0f} (e1={e1:.2e} e2={e2:.2e} "
                        f"scale={scale:.2e}){' marginal' if marginal else ''}")


def compare_pair(code1, ex1, code2, ex2, n1, margin, order, scale_hint=0.0,
                 by_class=True, lose=1, abs_floor=ABS_FLOOR):
    """Judge one tensor quantity computed on grids n1 (coarse) and 2*n1-1.

    Returns list of (class label, verdict, info, e1, e2, scale)."""
    code1, ex1, code2, ex2 = map(np.asarray, (code1, ex1, code2, ex2))
    if code1.shape != ex1.shape or code2.shape != ex2.shape:
        return [("shape", "violated",
                 f"shape {code1.shape} vs exact {ex1.shape}", np.nan, np.nan, 0)]
    E1, S1 = errors(code1, ex1, 1, n1, margin)
    E2, S2 = errors(code2, ex2, 2, n1, margin)
    prefix = E1.shape
    classes = index_classes(prefix) if by_class else {"all": np.ones(prefix, bool)}
    out = []
    glob = max(float(np.max(S2)) if S2.size else 0.0, float(scale_hint))
    for lab, m in classes.items():
        e1 = float(np.max(E1[m])) if prefix else float(E1)
        e2 = float(np.max(E2[m])) if prefix else float(E2)
        sc = float(np.max(S2[m])) if prefix else float(S2)
        nontrivial = sc > 1e-12 * max(glob, 1e-300)
        v, info = judge(e1, e2, max(sc, glob), order, lose=lose, abs_floor=abs_floor)
        out.append((lab, v, info, e1, e2, sc if nontrivial else 0.0))
    return out
