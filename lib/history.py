"""Request-history engine shared by C01, C02, C03 (and used by C14)."""
import inspect
import numpy as np

from . import common, harness, spacetimes as S
from .jets import Trig

FAMILIES = {
    'g3': ['gxx', 'gxy', 'gxz', 'gyy', 'gyz', 'gzz', 'gammadown3', 'gammaup3', 'gammadet'],
    'k3': ['kxx', 'kxy', 'kxz', 'kyy', 'kyz', 'kzz', 'Kdown3', 'Kup3', 'Ktrace'],
    'beta': ['betax', 'betay', 'betaz', 'betaup3', 'betadown3', 'betamag'],
    'dtbeta': ['dtbetax', 'dtbetay', 'dtbetaz', 'dtbetaup3'],
    'mom': ['Momentumx', 'Momentumy', 'Momentumz', 'Momentumup3', 'Momentumdown3',
            'Momentumdownx', 'Momentumdowny', 'Momentumdownz', 'Momentumx_norm',
            'Momentumdowny_norm', 'Momentum_Escale'],
    'rho': ['rho', 'rho0', 'eps', 'enthalpy', 'conserved_D', 'conserved_E'],
    'T': ['Tdown4', 'Ttrace', 'rho_n', 'press_n', 'Stresstrace_n', 'Tup4',
          'fluxup3_n', 'Stressdown3_n'],
    'sR': ['s_Riemann_down3', 's_Riemann_uddd3', 's_Ricci_down3', 's_RicciS',
           's_Gamma_udd3'],
    'stR': ['st_Riemann_down4', 'st_Ricci_down4', 'st_Ricci_down3', 'st_Weyl_down4',
            'st_RicciS', 'Einsteindown4', 'st_Riemann_uddd4', 'Kretschmann'],
    'g4': ['gdown4', 'gtt', 'gtx', 'gty', 'gtz', 'gdet', 'gup4'],
    'weyl': ['Weyl_Psi', 'Weyl_invariants', 'eweyl_n_down3', 'bweyl_n_down3',
             'eweyl_u_down4', 'bweyl_u_down4', 'st_Weyl_down4', 'st_Riemann_down4'],
    'ham': ['Hamiltonian', 'Hamiltonian_Escale', 'Hamiltonian_norm', 'rho_n_fromHam',
            'fluxup3_n_fromMom'],
}
HELPERS = ['s_covd:u', 's_covd:dd', 's_div:uu', 's_curl:dd', 'Lie_beta:s_dd',
           'Lie_beta:', 'st_covd:d', 'tetrad_base', 'null_vector_base',
           'null_ray_expansion']
SLOW = {'Psi4_lm'}


def all_keys():
    from aurel import core
    out = []
    for k in core.descriptions:
        f = getattr(core.AurelCore, k, None)
        if f is not None and f.__code__.co_argcount == 1:
            out.append(k)
    return out


def gen_history(rng, length, keys, p_family=0.65, p_helper=0.08):
    ops = []
    fam = None
    stay = 0
    names = list(FAMILIES)
    for _ in range(length):
        u = rng.random()
        if u < p_helper:
            ops.append(('helper', HELPERS[int(rng.integers(len(HELPERS)))]))
            continue
        if u < p_helper + p_family:
            if stay <= 0:
                fam = names[int(rng.integers(len(names)))]
                stay = int(rng.integers(2, 6))
            stay -= 1
            cand = [k for k in FAMILIES[fam] if k in keys]
            ops.append(('key', cand[int(rng.integers(len(cand)))]))
        else:
            k = keys[int(rng.integers(len(keys)))]
            if k in SLOW and rng.random() < 0.8:
                k = 'gdet'
            ops.append(('key', k))
    return ops


SOLUTIONS = {
    'Collins_Stewart': dict(t0=1.5, box=(-1.0, 2.0), Lambda=0.0),
    'Szekeres': dict(t0=2500.0, box=(-5.0, 10.0), Lambda='LCDM'),
    'LCDM': dict(t0=2500.0, box=(-5.0, 10.0), Lambda='LCDM'),
}


def solution_inputs(spec, n, d, lo):
    """Perfect-fluid inputs taken from a bundled exact solution (after C17)."""
    import importlib
    name = spec['member']['module']
    M = importlib.import_module('aurel.solutions.' + name)
    x, y, z = harness.coords(n, lo, d)
    t0 = SOLUTIONS[name]['t0']
    inp = {'gammadown3': np.array(M.gammadown3(t0, x, y, z), float),
           'Kdown3': np.array(M.Kdown3(t0, x, y, z), float)}
    try:
        rho = M.rho(t0, x, y, z)
    except TypeError:
        rho = M.rho(t0)
    inp['rho0'] = np.broadcast_to(np.asarray(rho, float), x.shape).copy()
    if hasattr(M, 'press'):
        inp['press'] = np.broadcast_to(np.asarray(M.press(t0, x, y, z), float), x.shape).copy()
    return inp, None


def solution_lambda(name):
    import importlib
    lam = SOLUTIONS[name]['Lambda']
    if lam == 'LCDM':
        return float(importlib.import_module('aurel.solutions.LCDM').Lambda)
    return float(lam)


def build_inputs(spec, n, d, lo):
    """Exact inputs for an instance; style in {tensor, components, fluid0,
    solution}."""
    if spec['member']['family'] == 'solution':
        return solution_inputs(spec, n, d, lo)
    st = S.member(spec['member'])
    x, y, z = harness.coords(n, lo, d)
    ex = S.exact_fields(st, spec.get('t0', 0.3), x, y, z, Lam=spec.get('Lambda', 0.0))
    style = spec.get('style', 'tensor')
    inp = {}
    if style == 'components':
        ij = [(0, 0), (0, 1), (0, 2), (1, 1), (1, 2), (2, 2)]
        for nm, (i, j) in zip(['gxx', 'gxy', 'gxz', 'gyy', 'gyz', 'gzz'], ij):
            inp[nm] = ex['gammadown3'][i, j].copy()
        for nm, (i, j) in zip(['kxx', 'kxy', 'kxz', 'kyy', 'kyz', 'kzz'], ij):
            inp[nm] = ex['Kdown3'][i, j].copy()
        for i, c in enumerate('xyz'):
            if c == 'x' and spec['member'].get('shift_x0'):
                continue            # beta^x = 0 identically: simply not supplied
            inp['beta' + c] = ex['betaup3'][i].copy()
            inp['dtbeta' + c] = ex['dtbetaup3'][i].copy()
        inp['alpha'] = ex['alpha'].copy()
        inp['dtalpha'] = ex['dtalpha'].copy()
    else:
        inp = {k: np.array(v, copy=True) for k, v in harness.adm_inputs(ex).items()}
    if spec.get('vacuum'):
        pass
    elif style == 'fluid0':
        # vacuum member described through fluid variables: rest-mass density
        # given explicitly and exactly zero (inputs still solve the equations)
        inp['rho0'] = np.zeros(x.shape)
        inp['press'] = np.zeros(x.shape)
    else:
        inp['Tdown4'] = ex['Tdown4'].copy()
        if spec.get('offshell'):
            # matter that does NOT source this geometry (the constraints are then
            # violated at O(1)): only for requests whose alternative derivations
            # are pure re-packagings and must agree to round-off for ANY inputs
            amp = 0.3 * (np.abs(ex['Tdown4']).max() + 1.0)
            bump = amp * np.sin(np.pi * x + 0.3) * np.cos(np.pi * y) * np.sin(np.pi * z - 0.2)
            for i in (1, 2, 3):
                inp['Tdown4'][0, i] += bump * (0.5 + 0.25 * i)
                inp['Tdown4'][i, 0] += bump * (0.5 + 0.25 * i)
    return inp, ex


def new_instance(spec, fd, inputs, cache=None):
    lam = spec.get('Lambda', 0.0)
    if spec['member']['family'] == 'solution':
        lam = solution_lambda(spec['member']['module'])
    kw = dict(Lambda=lam, vacuum=bool(spec.get('vacuum')),
              lmax=spec.get('lmax', 2))
    if spec.get('tetrad'):
        kw['tetrad'] = spec['tetrad']
    if spec.get('center'):
        kw['center'] = tuple(spec['center'])
    if cache is None:
        kw.update(clear_cache_every_nbr_calc=10**9, memory_threshold_inGB=1e9)
    else:
        kw.update(clear_cache_every_nbr_calc=cache['every'],
                  memory_threshold_inGB=cache['gb'])
    rel = harness.make_rel(fd, inputs, **kw)
    if cache and cache.get('importance'):
        for k, v in cache['importance'].items():
            if k not in inputs:
                rel.var_importance[k] = v
    return rel


def helper_args(rel, name):
    """Deterministic helper arguments built from the inputs."""
    b = rel['betaup3']
    K = rel['Kdown3']
    a = rel['alpha']
    # the tools are reachable as attributes and through brackets (rel['s_div']
    # hands out the bound method): alternate between the two
    if rel.calculation_count % 2:
        class _B:
            def __getattr__(self, n):
                return rel[n]
        R = _B()
    else:
        R = rel
    if name == 's_covd:u':
        return lambda: R.s_covd(b, 'u')
    if name == 's_covd:dd':
        return lambda: R.s_covd(K, 'dd')
    if name == 's_div:uu':
        return lambda: R.s_div(rel['Kup3'], 'uu')
    if name == 's_curl:dd':
        return lambda: R.s_curl(K, 'dd')
    if name == 'Lie_beta:s_dd':
        return lambda: R.Lie_beta(K, 's_dd', weight=-2 / 3)
    if name == 'Lie_beta:':
        return lambda: R.Lie_beta(a, '')
    if name == 'st_covd:d':
        return lambda: R.st_covd(rel['ndown4'], np.zeros_like(rel['ndown4']), 'd')
    if name == 'tetrad_base':
        return lambda: rel.tetrad_base()
    if name == 'null_vector_base':
        return lambda: rel.null_vector_base()
    if name == 'null_ray_expansion':
        return lambda: R.null_ray_expansion(rel.fd.r, direction='in')
    raise KeyError(name)


def do_op(rel, op):
    """Run one request; returns ('ok', value) or ('raise', exception)."""
    if op[0] == 'keep':
        # a clean-up that leaves only the named (unfrozen) entries behind
        for k in [k for k in rel.data if rel.var_importance.get(k, 1.0) != 0 and k not in op[1]]:
            del rel.data[k]
            rel.last_accessed.pop(k, None)
        return 'ok', None
    if op[0] == 'evict':
        # what a clean-up does to the entries it picks (which ones it picks is
        # up to ages, sizes and the user-settable importances): a seeded half of
        # the unfrozen cached entries goes
        rng = np.random.default_rng([int(op[1]), 4242])
        victims = sorted(k for k in rel.data if rel.var_importance.get(k, 1.0) != 0)
        mode = int(op[1]) % 3
        big = lambda k: not (isinstance(rel.data[k], np.ndarray) and rel.data[k].ndim == 3)
        if mode == 1:        # the larger entries go first (strain grows with size)
            gone = [k for k in victims if big(k) or rng.random() < 0.2]
        elif mode == 2:      # ... or the small ones (importance overrides)
            gone = [k for k in victims if not big(k) or rng.random() < 0.2]
        else:
            gone = [k for k in victims if rng.random() < 0.5]
        for k in gone:
            del rel.data[k]
            rel.last_accessed.pop(k, None)
        return 'ok', None
    try:
        with common.Quiet():
            if op[0] == 'key':
                v = rel[op[1]]
            else:
                v = helper_args(rel, op[1])()
        return 'ok', v
    except RecursionError as e:
        return 'raise', e
    except Exception as e:
        return 'raise', e


def flat(v):
    """Flatten nested containers of arrays to a list of (path, complex array)."""
    out = []
    if isinstance(v, np.ndarray):
        out.append(('', v))
    elif isinstance(v, (list, tuple)):
        for i, x in enumerate(v):
            for p, a in flat(x):
                out.append((f'[{i}]{p}', a))
    elif isinstance(v, dict):
        for k in sorted(v, key=repr):
            for p, a in flat(v[k]):
                out.append((f'[{k!r}]{p}', a))
    elif v is None:
        out.append(('', None))
    else:
        out.append(('', np.asarray(v)))
    return out


def compare(a, b, window=None):
    """Returns (structure_ok, max_abs_err, scale)."""
    fa, fb = flat(a), flat(b)
    if [p for p, _ in fa] != [p for p, _ in fb]:
        return False, np.inf, 0.0
    err, sc = 0.0, 0.0
    for (_, x), (_, y) in zip(fa, fb):
        if x is None or y is None:
            if not (x is None and y is None):
                return False, np.inf, 0.0
            continue
        if x.shape != y.shape:
            return False, np.inf, 0.0
        if window is not None and x.ndim >= 3 and x.shape[-3:] == window[0]:
            I = (Ellipsis,) + window[1]
            x, y = x[I], y[I]
        if x.size:
            with np.errstate(invalid='ignore'):
                dlt = np.abs(x - y)
            if not np.all(np.isfinite(dlt)):
                same_nonfinite = np.array_equal(np.isfinite(x), np.isfinite(y))
                if not same_nonfinite:
                    return True, np.inf, float(np.nanmax(np.abs(y))) if np.any(np.isfinite(y)) else 0.0
                dlt = np.where(np.isfinite(dlt), dlt, 0.0)
            err = max(err, float(dlt.max()))
            fin = np.abs(y[np.isfinite(y)])
            if fin.size:
                sc = max(sc, float(fin.max()))
    return True, err, sc


def cleanup_line_map():
    """Offsets (relative to the def line) of the three eviction paths."""
    from aurel import core
    src = inspect.getsource(core.AurelCore.cleanup_cache).splitlines()
    m = {}
    for i, line in enumerate(src):
        if 'key_to_remove += [key]' in line:
            m[i] = 'regular-strain'
        elif 'del self.data[key_to_remove]' in line:
            m[i] = 'memory-loop'
        elif line.strip() == 'break':
            m[i] = 'too-small-break'
    return m
