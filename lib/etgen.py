"""Einstein-Toolkit (Carpet HDF5) directory generator with closed-form truth.

Layout mirrors tests/fixtures: <root>/<sim>/output-000r/<sim>/<file>.h5 with
dataset keys 'THORN::var it=I tl=0 [m=0] rl=R [c=C]', stored (z, y, x) with
ghost zones on every side, attrs cctk_nghostzones / iorigin / time.
Every stored interior cell has a unique, exactly representable value
truth(var, it, rl, restart tag, i, j, k), so any misplaced chunk, transposed
axis, wrong iteration / level / restart / variable shows up in one cell.
"""
import itertools
import os
import shutil

import h5py
import numpy as np

# ET variable -> (thorn, known group base, aurel name)
VARS = {
    'alp': ('ADMBASE', 'admbase-lapse', 'alpha'),
    'dtalp': ('ADMBASE', 'admbase-dtlapse', 'dtalpha'),
    'betax': ('ADMBASE', 'admbase-shift', 'betax'),
    'betay': ('ADMBASE', 'admbase-shift', 'betay'),
    'betaz': ('ADMBASE', 'admbase-shift', 'betaz'),
    'gxx': ('ADMBASE', 'admbase-metric', 'gxx'), 'gxy': ('ADMBASE', 'admbase-metric', 'gxy'),
    'gxz': ('ADMBASE', 'admbase-metric', 'gxz'), 'gyy': ('ADMBASE', 'admbase-metric', 'gyy'),
    'gyz': ('ADMBASE', 'admbase-metric', 'gyz'), 'gzz': ('ADMBASE', 'admbase-metric', 'gzz'),
    'kxx': ('ADMBASE', 'admbase-curv', 'kxx'), 'kxy': ('ADMBASE', 'admbase-curv', 'kxy'),
    'kxz': ('ADMBASE', 'admbase-curv', 'kxz'), 'kyy': ('ADMBASE', 'admbase-curv', 'kyy'),
    'kyz': ('ADMBASE', 'admbase-curv', 'kyz'), 'kzz': ('ADMBASE', 'admbase-curv', 'kzz'),
    'rho': ('HYDROBASE', 'hydrobase-rho', 'rho0'),
    'eps': ('HYDROBASE', 'hydrobase-eps', 'eps'),
    'press': ('HYDROBASE', 'hydrobase-press', 'press'),
    'w_lorentz': ('HYDROBASE', 'hydrobase-w_lorentz', 'w_lorentz'),
    'vel[0]': ('HYDROBASE', 'hydrobase-vel', 'velx'),
    'vel[1]': ('HYDROBASE', 'hydrobase-vel', 'vely'),
    'vel[2]': ('HYDROBASE', 'hydrobase-vel', 'velz'),
    'trK': ('ML_BSSN', 'ml_bssn-ml_trace_curv', 'Ktrace'),
    'H': ('ML_BSSN', 'ml_bssn-ml_ham', 'Hamiltonian'),
    'M1': ('ML_BSSN', 'ml_bssn-ml_mom', 'Momentumx'),
    'M2': ('ML_BSSN', 'ml_bssn-ml_mom', 'Momentumy'),
    'M3': ('ML_BSSN', 'ml_bssn-ml_mom', 'Momentumz'),
    'tau': ('COSMOLAPSE', 'cosmolapse-propertime', 'tau'),
    # (appended last: the truth codes of the variables above stay what they were)
    'dtbetax': ('ADMBASE', 'admbase-dtshift', 'dtbetax'),
    'dtbetay': ('ADMBASE', 'admbase-dtshift', 'dtbetay'),
    'dtbetaz': ('ADMBASE', 'admbase-dtshift', 'dtbetaz'),
    'Psi4r': ('WEYLSCAL4', 'weylscal4-psi4r_group', 'Weyl_Psi4r'),
    'Psi4i': ('WEYLSCAL4', 'weylscal4-psi4i_group', 'Weyl_Psi4i'),
}
CODE = {v: i + 1 for i, v in enumerate(VARS)}
GROUP_MEMBERS = {}
for _v, (_t, _g, _a) in VARS.items():
    GROUP_MEMBERS.setdefault(_g, []).append(_v)
TENSORS = {'gammadown3': ['gxx', 'gxy', 'gxz', 'gyy', 'gyz', 'gzz'],
           'Kdown3': ['kxx', 'kxy', 'kxz', 'kyy', 'kyz', 'kzz'],
           'betaup3': ['betax', 'betay', 'betaz'],
           'velup3': ['velx', 'vely', 'velz'],
           'dtbetaup3': ['dtbetax', 'dtbetay', 'dtbetaz'],
           'Momentumup3': ['Momentumx', 'Momentumy', 'Momentumz']}
SENTINEL = -777.25


def time_of(it):
    return 0.125 * it + 1.0


def truth(var, it, rl, rtag, shape):
    nx, ny, nz = shape
    i, j, k = np.meshgrid(np.arange(nx), np.arange(ny), np.arange(nz), indexing='ij')
    base = ((CODE[var] * 2097152 + it) * 64 + rl * 16 + rtag)    # it < 2^21
    return base + i + j / 64.0 + k / 4096.0


def product_boxes(shape, cuts):
    def segs(n, c):
        e = [0] + list(c) + [n]
        return [(e[i], e[i + 1]) for i in range(len(e) - 1)]
    return [tuple(b) for b in itertools.product(segs(shape[0], cuts[0]),
                                                segs(shape[1], cuts[1]),
                                                segs(shape[2], cuts[2]))]


def bisect_boxes(rng, shape, nchunks, order=None):
    """Recursive bisection (Carpet style), not necessarily a tensor product."""
    boxes = [tuple((0, n) for n in shape)]
    while len(boxes) < nchunks:
        cand = [b for b in boxes if max(h - l for l, h in b) >= 2]
        if not cand:
            break
        b = cand[int(rng.integers(len(cand)))]
        axes = [a for a in range(3) if b[a][1] - b[a][0] >= 2]
        a = axes[int(rng.integers(len(axes)))] if order is None else \
            next((q for q in order if q in axes), axes[0])
        cut = int(rng.integers(b[a][0] + 1, b[a][1]))
        boxes.remove(b)
        lo, hi = list(b), list(b)
        lo[a] = (b[a][0], cut)
        hi[a] = (cut, b[a][1])
        boxes += [tuple(lo), tuple(hi)]
    return boxes


def is_product(boxes):
    ax = [sorted({b[a] for b in boxes}) for a in range(3)]
    return len(boxes) == len(ax[0]) * len(ax[1]) * len(ax[2]) and \
        set(boxes) == set(itertools.product(*ax))


def file_base(var, grouped, custom_group=None):
    if not grouped:
        return var
    if custom_group and var in custom_group[1]:
        return custom_group[0]
    return VARS[var][1]


def make_sim(root, spec):
    """Write the simulation tree described by spec; returns the aurel param dict.

    spec keys: simname, vars (ET names), restarts: list of dicts
      {its: {rl: [iterations]}, rtag: int, checkpoints: [its], chk_proc: bool}
    levels: {rl: {shape, ghost, boxes, perm}}, layout 'onefile'|'proc',
    grouped bool, m0 bool, xyz bool, custom_group (base, [vars]) or None,
    par: text of the .par file or None.
    """
    simname = spec['simname']
    simdir = os.path.join(root, simname)
    if os.path.exists(simdir):
        shutil.rmtree(simdir)
    for r, rs in enumerate(spec['restarts']):
        rnum = rs.get('number', r)
        d = os.path.join(simdir, f'output-{rnum:04d}', simname)
        os.makedirs(d)
        if spec.get('par') is not None and (r == 0 or spec.get('par_everywhere')):
            with open(os.path.join(simdir, f'output-{rnum:04d}', simname + '.par'), 'w') as f:
                f.write(spec['par'])
        files = {}
        for var in rs.get('vars', spec['vars']):
            base = file_base(var, spec['grouped'], spec.get('custom_group'))
            thorn = VARS[var][0]
            if spec.get('custom_group') and var in spec['custom_group'][1]:
                thorn = spec['custom_group'][0].split('-')[0].upper()
            for rl, lev in spec['levels'].items():
                nx, ny, nz = lev['shape']
                gx, gy, gz = lev['ghost']
                for it in rs['its'].get(rl, []):
                    boxes = lev['boxes']
                    perm = lev.get('perm') or list(range(len(boxes)))
                    if lev.get('boxes_late') and it >= lev['late_from']:
                        # the level was regridded / re-distributed at this iteration
                        boxes = lev['boxes_late']
                        perm = list(range(len(boxes)))
                    full = np.full((nx + 2 * gx, ny + 2 * gy, nz + 2 * gz), SENTINEL)
                    full[gx:gx + nx, gy:gy + ny, gz:gz + nz] = truth(
                        var, it, rl, rs.get('rtag', 0), lev['shape'])
                    for cnum, bi in enumerate(perm):
                        (x0, x1), (y0, y1), (z0, z1) = boxes[bi]
                        blk = full[x0:x1 + 2 * gx, y0:y1 + 2 * gy, z0:z1 + 2 * gz]
                        arr = np.ascontiguousarray(np.transpose(blk, (2, 1, 0)))
                        xyz = '.xyz' if spec.get('xyz') else ''
                        fn = (f'{base}{xyz}.file_{cnum}.h5' if spec['layout'] == 'proc'
                              else f'{base}{xyz}.h5')
                        key = f'{thorn}::{var} it={it} tl=0'
                        if spec.get('m0'):
                            key += ' m=0'
                        if not spec.get('unigrid'):     # Carpet omits rl= when there is one level
                            key += f' rl={rl}'
                        if len(boxes) > 1:
                            key += f' c={cnum}'
                        files.setdefault(fn, []).append((key, arr, (x0, y0, z0), it,
                                                         (gx, gy, gz)))
        for fn, items in files.items():
            with h5py.File(os.path.join(d, fn), 'w') as f:
                for key, arr, org, it, gh in items:
                    ds = f.create_dataset(key, data=arr)
                    ds.attrs['cctk_nghostzones'] = np.array(gh, dtype=np.int32)
                    ds.attrs['iorigin'] = np.array(org, dtype=np.int32)
                    ds.attrs['time'] = float(time_of(it))
                f.create_group('Parameters and Global Attributes')
        for cit in rs.get('checkpoints', []):
            nb = len(spec['levels'][min(spec['levels'])]['boxes'])
            proc = bool(rs.get('chk_proc')) and (nb > 1 or not spec.get('chk_data'))
            nfiles = (nb if spec.get('chk_data') else 3) if proc else 1
            names = ([f'checkpoint.chkpt.it_{cit}.file_{k}.h5' for k in range(nfiles)]
                     if proc else [f'checkpoint.chkpt.it_{cit}.h5'])
            for fi, nm in enumerate(names):
                with h5py.File(os.path.join(d, nm), 'w') as f:
                    f.create_group('Parameters and Global Attributes')
                    if not spec.get('chk_data'):
                        continue
                    for var in spec['vars']:
                        thorn = VARS[var][0]
                        for rl, lev in spec['levels'].items():
                            nx, ny, nz = lev['shape']
                            gx, gy, gz = lev['ghost']
                            boxes = lev['boxes']
                            perm = lev.get('perm') or list(range(len(boxes)))
                            for tl in (0, 1):
                                full = np.full((nx + 2 * gx, ny + 2 * gy, nz + 2 * gz), SENTINEL)
                                full[gx:gx + nx, gy:gy + ny, gz:gz + nz] = truth(
                                    var, cit, rl, rs.get('rtag', 0), lev['shape']) + (0 if tl == 0 else 7.0e6)
                                for cnum, bi in enumerate(perm):
                                    if proc and cnum != fi:
                                        continue
                                    (x0, x1), (y0, y1), (z0, z1) = boxes[bi]
                                    blk = full[x0:x1 + 2 * gx, y0:y1 + 2 * gy, z0:z1 + 2 * gz]
                                    arr = np.ascontiguousarray(np.transpose(blk, (2, 1, 0)))
                                    key = f'{thorn}::{var} it={cit} tl={tl}'
                                    if spec.get('m0'):
                                        key += ' m=0'
                                    if not spec.get('unigrid'):     # Carpet omits rl= when there is one level
                                        key += f' rl={rl}'
                                    if len(boxes) > 1:
                                        key += f' c={cnum}'
                                    ds = f.create_dataset(key, data=arr)
                                    ds.attrs['cctk_nghostzones'] = np.array((gx, gy, gz), dtype=np.int32)
                                    ds.attrs['iorigin'] = np.array((x0, y0, z0), dtype=np.int32)
                                    ds.attrs['time'] = float(time_of(cit))
    simpath = root if root.endswith('/') else root + '/'
    return {'simulation': 'ET', 'simname': simname, 'simpath': simpath}


def aurel_name(var):
    return VARS[var][2]


def expected(spec, var, it, rl):
    """Ground truth array for (ET var, iteration, level): latest restart wins."""
    for rs in reversed(spec['restarts']):
        if it in rs['its'].get(rl, []):
            return truth(var, it, rl, rs.get('rtag', 0), spec['levels'][rl]['shape'])
    return None


def restart_of(spec, it, rl):
    for r in range(len(spec['restarts']) - 1, -1, -1):
        if it in spec['restarts'][r]['its'].get(rl, []):
            return r
    return None
