"""Spacetimes whose metric jets come from a symbolic (sympy) metric, or from
8th-order numerical differentiation of a numeric metric function."""
import numpy as np

from .jets import J2
from .spacetimes import Spacetime


class SymbolicSpacetime(Spacetime):
    name = "symbolic"

    def __init__(self, gexpr, symbols, label=""):
        import sympy as sp
        self.label = label
        n = 4
        g = sp.Matrix(gexpr)
        idx = [(a, b) for a in range(n) for b in range(a, n)]
        ex = []
        for (a, b) in idx:
            ex.append(g[a, b])
        d1 = {}
        for (a, b) in idx:
            for c in range(4):
                d1[c, a, b] = sp.diff(g[a, b], symbols[c])
                ex.append(d1[c, a, b])
        for (a, b) in idx:
            for c in range(4):
                for e in range(c, 4):
                    ex.append(sp.diff(d1[c, a, b], symbols[e]))
        self.idx = idx
        self.f = sp.lambdify(symbols, ex, 'numpy', cse=True)

    def describe(self):
        return {"family": self.name, "label": self.label}

    def gJ2(self, X):
        shape = np.broadcast(*X).shape
        Xb = [np.broadcast_to(np.asarray(x, float), shape) for x in X]
        with np.errstate(all='ignore'):
            vals = self.f(*Xb)
        vals = [np.broadcast_to(np.asarray(v, float), shape) for v in vals]
        it = iter(vals)
        n = 4
        V = {}
        for (a, b) in self.idx:
            V[a, b] = [next(it), np.zeros((4,) + shape), np.zeros((4, 4) + shape)]
        for (a, b) in self.idx:
            for c in range(4):
                V[a, b][1][c] = next(it)
        for (a, b) in self.idx:
            for c in range(4):
                for e in range(c, 4):
                    v = next(it)
                    V[a, b][2][c, e] = v
                    V[a, b][2][e, c] = v
        g = [[None] * n for _ in range(n)]
        for (a, b) in self.idx:
            j = J2(V[a, b][0].copy(), V[a, b][1], V[a, b][2])
            g[a][b] = g[b][a] = j
        return g


# central-difference weights, 8th order
_W1 = {1: 4 / 5, 2: -1 / 5, 3: 4 / 105, 4: -1 / 280}
_W2 = {0: -205 / 72, 1: 8 / 5, 2: -1 / 5, 3: 8 / 315, 4: -1 / 560}


class NumericSpacetime(Spacetime):
    """Jets by 8th-order differences of a numeric metric g(t,x,y,z)->(4,4,...)."""

    name = "numeric-fd8"

    def __init__(self, gfun, steps, label=""):
        self.gfun = gfun
        self.h = list(steps)
        self.label = label

    def describe(self):
        return {"family": self.name, "label": self.label, "h": self.h}

    def _g(self, X):
        return np.asarray(self.gfun(*X), float)

    def gJ2(self, X):
        shape = np.broadcast(*X).shape
        X = [np.broadcast_to(np.asarray(x, float), shape).copy() for x in X]
        G0 = self._g(X)
        dG = np.zeros((4,) + G0.shape)
        ddG = np.zeros((4, 4) + G0.shape)

        def shifted(c, k, e=None, l=0):
            Y = [x.copy() for x in X]
            Y[c] = Y[c] + k * self.h[c]
            if e is not None:
                Y[e] = Y[e] + l * self.h[e]
            return self._g(Y)
        for c in range(4):
            acc1 = 0.0
            acc2 = _W2[0] * G0
            for k in range(1, 5):
                gp, gm = shifted(c, k), shifted(c, -k)
                acc1 = acc1 + _W1[k] * (gp - gm)
                acc2 = acc2 + _W2[k] * (gp + gm)
            dG[c] = acc1 / self.h[c]
            ddG[c, c] = acc2 / self.h[c] ** 2
        for c in range(4):
            for e in range(c + 1, 4):
                acc = 0.0
                for k in range(1, 5):
                    for l in range(1, 5):
                        acc = acc + _W1[k] * _W1[l] * (
                            shifted(c, k, e, l) - shifted(c, k, e, -l)
                            - shifted(c, -k, e, l) + shifted(c, -k, e, -l))
                ddG[c, e] = ddG[e, c] = acc / (self.h[c] * self.h[e])
        g = [[None] * 4 for _ in range(4)]
        for a in range(4):
            for b in range(4):
                g[a][b] = J2(G0[a, b], dG[:, a, b], ddG[:, :, a, b])
        return g
