"""Runtime monitors for the lazy cache (DESIGN 1.3).

ArrayLedger : shadow digests of every array reachable from the inputs and from
              every value handed out (write barrier by comparison).
CoreProbe   : class-level wrappers on AurelCore.__getitem__ / cleanup_cache /
              freeze_data that assert the C03 invariants at every hook and
              record an event log (hits, misses, evictions by path).
BranchTrace : sys.monitoring LINE events, enabled only on the code objects
              that contain cache-state guards, giving the set of
              (function, arm) pairs actually executed.
"""
import hashlib
import sys
import types

import numpy as np


def digest(a):
    a = np.ascontiguousarray(a)
    h = hashlib.blake2b(digest_size=12)
    h.update(str(a.dtype).encode())
    h.update(str(a.shape).encode())
    h.update(a.view(np.uint8).reshape(-1).data if a.size else b"")
    return h.hexdigest()


def walk_arrays(obj, path="", depth=0):
    """Yield (path, ndarray) for every array reachable from obj."""
    if depth > 6:
        return
    if isinstance(obj, np.ndarray):
        yield path, obj
    elif isinstance(obj, (list, tuple)):
        for i, v in enumerate(obj):
            yield from walk_arrays(v, f"{path}[{i}]", depth + 1)
    elif isinstance(obj, dict):
        for k, v in obj.items():
            yield from walk_arrays(v, f"{path}[{k!r}]", depth + 1)


class ArrayLedger:
    def __init__(self):
        self.entries = {}       # id -> (array ref, digest, role, registered_at)
        self.events = []

    def register(self, obj, role, when=""):
        n = 0
        for path, a in walk_arrays(obj):
            chain = [a]
            b = a.base
            while isinstance(b, np.ndarray):
                chain.append(b)
                b = b.base
            for c in chain:
                if id(c) not in self.entries:
                    self.entries[id(c)] = (c, digest(c), role + path, when)
                    n += 1
        return n

    def audit(self, after_op):
        """Return list of mutated entries since registration/last audit."""
        bad = []
        for k, (a, d, role, when) in list(self.entries.items()):
            nd = digest(a)
            if nd != d:
                bad.append({"role": role, "registered_at": when,
                            "after_op": after_op, "shape": list(a.shape)})
                self.entries[k] = (a, nd, role, when)
        return bad

    def trap(self):
        """Trap mode: make everything read-only so numpy raises at the writer."""
        for a, *_ in self.entries.values():
            try:
                a.flags.writeable = False
            except ValueError:
                pass


# ---------------------------------------------------------------------------
class ProbeState:
    """Per-instance shadow state kept by CoreProbe."""

    def __init__(self):
        self.frozen = {}          # key -> (id, digest)
        self.unfrozen_by_user = set()
        self.depth = 0
        self.stack = []
        self.deepest = None
        self.events = []
        self.violations = []
        self.counters = dict(hits=0, misses=0, cleanups=0, evict_regular=0,
                             evict_memory=0, too_small_break=0, get_size=0,
                             nested_max=0, function_returns=0)


class CoreProbe:
    """Install with `with CoreProbe() as probe:`; probe.state(rel) per instance."""

    def __init__(self, check_frozen_digest=True, log_events=True):
        self.states = {}
        self.check_frozen_digest = check_frozen_digest
        self.log_events = log_events
        self._orig = {}
        self.in_cleanup = None

    def state(self, rel):
        st = self.states.get(id(rel))
        if st is None:
            st = self.states[id(rel)] = ProbeState()
            st.rel = rel            # keep alive so ids stay unique
        return st

    # -- invariants --------------------------------------------------------
    def _check(self, rel, st, where):
        v = st.violations
        data, la = rel.data, rel.last_accessed
        for k, (oid, dg) in st.frozen.items():
            if rel.var_importance.get(k, 1.0) != 0 and k in st.unfrozen_by_user:
                continue                      # the user un-froze it
            if rel.var_importance.get(k, 1.0) != 0:
                v.append(("I1 frozen key lost its zero importance", {"key": k, "where": where,
                                                                     "importance": float(rel.var_importance.get(k, 1.0))}))
            if k not in data:
                v.append(("I1 frozen key evicted", {"key": k, "where": where}))
            elif id(data[k]) != oid:
                v.append(("I1 frozen key replaced", {"key": k, "where": where}))
            elif self.check_frozen_digest and dg is not None and (
                    where.startswith("getitem") or
                    (where.startswith("cleanup") and
                     (st.counters['cleanups'] < 64 or st.counters['cleanups'] % 32 == 0))):
                # an alteration is permanent, so sampling the clean-ups of a
                # thrashing request (10^5 of them) only delays its report to
                # the end of that top-level request
                if isinstance(data[k], np.ndarray) and digest(data[k]) != dg:
                    v.append(("I1 frozen key altered", {"key": k, "where": where}))
        extra = set(la) - set(data)
        if extra:
            v.append(("I2 age table names keys that are not cached",
                      {"keys": sorted(extra)[:5], "where": where}))
        cc = rel.calculation_count
        late = [k for k, t in la.items() if t > cc]
        if late:
            v.append(("I6 last_accessed in the future", {"keys": late[:5]}))

    # -- wrappers ----------------------------------------------------------
    def __enter__(self):
        from aurel import core
        C = core.AurelCore
        probe = self
        self._orig = dict(getitem=C.__getitem__, cleanup=C.cleanup_cache,
                          freeze=C.freeze_data, get_size=core.get_size)

        def get_size_shim(obj):
            st = probe.in_cleanup
            if st is not None:
                st.counters['get_size'] += 1
                st._gs += 1
            return probe._orig['get_size'](obj)
        core.get_size = get_size_shim

        def getitem(rel, key):
            st = probe.state(rel)
            hit = key in rel.data
            cc0 = rel.calculation_count
            st.depth += 1
            st.stack.append(key)
            if st.depth > st.counters['nested_max']:
                st.counters['nested_max'] = st.depth
                if st.depth > 40:
                    st.deepest = list(st.stack[:12]) + ['...'] + list(st.stack[-6:])
            try:
                out = probe._orig['getitem'](rel, key)
            finally:
                st.depth -= 1
                st.stack.pop()
            if isinstance(out, types.MethodType):
                st.counters['function_returns'] += 1
                return out
            if hit:
                st.counters['hits'] += 1
            else:
                st.counters['misses'] += 1
            if st.depth == 0:
                if hit and rel.calculation_count != cc0:
                    st.violations.append(("I6 count changed on a cache hit", {"key": key}))
                probe._check(rel, st, f"getitem:{key}")
            if probe.log_events and st.depth == 0:
                st.events.append(("get", key, "hit" if hit else "miss",
                                  rel.calculation_count - cc0))
            return out

        def cleanup(rel):
            st = probe.state(rel)
            before = dict(rel.data)
            n0 = len(before)
            st._gs = 0
            prev = probe.in_cleanup
            probe.in_cleanup = st
            regular = (rel.calculation_count % rel.clear_cache_every_nbr_calc == 0)
            try:
                probe._orig['cleanup'](rel)
            except Exception as e:
                st.violations.append(("I4 cleanup_cache raised",
                                      {"error": repr(e)[:200]}))
                raise
            finally:
                probe.in_cleanup = prev
            st.counters['cleanups'] += 1
            removed = [k for k in before if k not in rel.data]
            for k in removed:
                if rel.var_importance.get(k, 1.0) == 0 and k in st.frozen:
                    st.violations.append(("I3 frozen key removed by clean-up", {"key": k}))
            for k, v0 in before.items():
                if k in rel.data and rel.data[k] is not v0:
                    st.violations.append(("I3 surviving entry replaced by clean-up", {"key": k}))
            added = [k for k in rel.data if k not in before]
            if added:
                st.violations.append(("I3 clean-up added entries", {"keys": added[:5]}))
            if removed:
                if regular:
                    st.counters['evict_regular'] += len(removed)
                else:
                    st.counters['evict_memory'] += len(removed)
            # bounded work (logical, not wall-clock)
            if st._gs > 8 * (n0 + 2) ** 2 + 50:
                st.violations.append(("I5 unbounded work in clean-up",
                                      {"get_size_calls": st._gs, "entries": n0}))
            probe._check(rel, st, "cleanup")
            if probe.log_events:
                st.events.append(("cleanup", rel.calculation_count, removed))

        def freeze(rel):
            st = probe.state(rel)
            probe._orig['freeze'](rel)
            for k, v in rel.data.items():
                st.frozen[k] = (id(v), digest(v) if isinstance(v, np.ndarray) else None)
                if rel.var_importance.get(k, 1.0) != 0:
                    st.violations.append(("I1 freeze_data left an entry evictable",
                                          {"key": k, "importance": rel.var_importance.get(k)}))
            st.frozen_at_freeze = set(rel.data)

        C.__getitem__ = getitem
        C.cleanup_cache = cleanup
        C.freeze_data = freeze
        return self

    def __exit__(self, *a):
        from aurel import core
        C = core.AurelCore
        C.__getitem__ = self._orig['getitem']
        C.cleanup_cache = self._orig['cleanup']
        C.freeze_data = self._orig['freeze']
        core.get_size = self._orig['get_size']
        return False


# ---------------------------------------------------------------------------
class BranchTrace:
    """Which source lines ran inside selected functions (sys.monitoring)."""

    TOOL = 3

    def __init__(self, functions):
        self.codes = {}
        for f in functions:
            code = getattr(f, "__code__", None)
            if code is None and hasattr(f, "__func__"):
                code = f.__func__.__code__
            if code is not None:
                self.codes[code] = f.__qualname__
        self.lines = {}       # (qualname, relative line) -> count

    def __enter__(self):
        mon = sys.monitoring
        try:
            mon.use_tool_id(self.TOOL, "verif-branchtrace")
        except ValueError:
            mon.free_tool_id(self.TOOL)
            mon.use_tool_id(self.TOOL, "verif-branchtrace")

        def on_line(code, line):
            q = self.codes.get(code)
            if q is not None:
                k = (q, line - code.co_firstlineno)
                self.lines[k] = self.lines.get(k, 0) + 1
        mon.register_callback(self.TOOL, mon.events.LINE, on_line)
        for code in self.codes:
            mon.set_local_events(self.TOOL, code, mon.events.LINE)
        return self

    def __exit__(self, *a):
        mon = sys.monitoring
        for code in self.codes:
            mon.set_local_events(self.TOOL, code, 0)
        mon.register_callback(self.TOOL, mon.events.LINE, None)
        mon.free_tool_id(self.TOOL)
        return False

    def arms(self):
        """Set of 'function:+offset' strings seen."""
        return sorted(f"{q}:+{l}" for (q, l) in self.lines)
