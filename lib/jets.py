"""Exact-jet oracle (DESIGN 1.1).

Everything here is independent of aurel: scalar fields are finite sums of
sinusoids whose derivatives of any order are closed forms; products, quotients
and compositions are propagated with a small second-order automatic
differentiation class (`J2`); curvature comes from the textbook definitions
applied pointwise to the metric jets (g, dg, ddg) with numpy.linalg.

Index conventions: coordinates X = (t, x, y, z), derivative index FIRST:
dG[c,a,b] = d_c g_ab, ddG[c,d,a,b] = d_c d_d g_ab.
"""
import itertools

import numpy as np


# ---------------------------------------------------------------------------
# second-order jets
# ---------------------------------------------------------------------------
class J2:
    """value, gradient (D,...) and Hessian (D,D,...) of a scalar field."""

    __slots__ = ("v", "d", "dd")

    def __init__(self, v, d, dd):
        self.v, self.d, self.dd = v, d, dd

    @staticmethod
    def const(c, shape, D=4):
        return J2(np.full(shape, float(c)), np.zeros((D,) + shape),
                  np.zeros((D, D) + shape))

    def _coerce(self, o):
        if isinstance(o, J2):
            return o
        return J2.const(o, self.v.shape, self.d.shape[0])

    def __add__(self, o):
        o = self._coerce(o)
        return J2(self.v + o.v, self.d + o.d, self.dd + o.dd)

    __radd__ = __add__

    def __neg__(self):
        return J2(-self.v, -self.d, -self.dd)

    def __sub__(self, o):
        return self + (-self._coerce(o))

    def __rsub__(self, o):
        return self._coerce(o) - self

    def __mul__(self, o):
        if not isinstance(o, J2):
            return J2(self.v * o, self.d * o, self.dd * o)
        cross = np.einsum('c...,d...->cd...', self.d, o.d)
        return J2(self.v * o.v,
                  self.d * o.v + self.v * o.d,
                  self.dd * o.v + self.v * o.dd
                  + cross + np.einsum('cd...->dc...', cross))

    __rmul__ = __mul__

    def apply(self, f0, f1, f2):
        """Compose with a scalar function given its value, f', f'' arrays."""
        return J2(f0,
                  f1 * self.d,
                  f1 * self.dd
                  + f2 * np.einsum('c...,d...->cd...', self.d, self.d))

    def recip(self):
        return self.apply(1 / self.v, -1 / self.v**2, 2 / self.v**3)

    def __truediv__(self, o):
        if isinstance(o, J2):
            return self * o.recip()
        return self * (1.0 / o)

    def __rtruediv__(self, o):
        return self._coerce(o) * self.recip()

    def power(self, p):
        return self.apply(self.v**p, p * self.v**(p - 1),
                          p * (p - 1) * self.v**(p - 2))

    def sqrt(self):
        return self.power(0.5)

    def exp(self):
        e = np.exp(self.v)
        return self.apply(e, e, e)

    def log(self):
        return self.apply(np.log(self.v), 1 / self.v, -1 / self.v**2)


class Trig:
    """f(X) = c0 + sum_k a_k sin(K_k . X + ph_k) on D coordinates."""

    def __init__(self, c0, amps, K, ph):
        self.c0 = float(c0)
        self.a = np.asarray(amps, float)
        self.K = np.asarray(K, float)      # (n, D)
        self.ph = np.asarray(ph, float)
        self.D = self.K.shape[1] if self.K.size else 4

    @staticmethod
    def random(rng, D=4, nterms=2, amp=1.0, kmax=1.0, c0=0.0, kmask=None,
               period=None):
        K = rng.uniform(-kmax, kmax, (nterms, D))
        if period is not None:
            # spatially periodic: integer multiples of 2 pi / period
            for k in range(nterms):
                while True:
                    m = rng.integers(-1, 2, D - 1)
                    if np.any(m != 0):
                        break
                K[k, 1:] = 2 * np.pi / period * m
        if kmask is not None:
            K = K * np.asarray(kmask, float)
        a = amp * rng.uniform(0.5, 1.0, nterms) * rng.choice([-1, 1], nterms)
        return Trig(c0, a / nterms, K, rng.uniform(0, 2 * np.pi, nterms))

    def describe(self):
        return {"c0": self.c0, "a": self.a.round(4).tolist(),
                "K": self.K.round(4).tolist(), "ph": self.ph.round(4).tolist()}

    def _theta(self, X):
        shape = np.broadcast(*X).shape
        th = np.zeros((len(self.a),) + shape)
        for k in range(len(self.a)):
            th[k] = self.ph[k]
            for c in range(self.D):
                th[k] = th[k] + self.K[k, c] * X[c]
        return th, shape

    def deriv(self, X, idx=()):
        """Partial derivative of any order; idx is a tuple of coordinate ids."""
        th, shape = self._theta(X)
        n = len(idx)
        out = np.zeros(shape)
        for k in range(len(self.a)):
            coef = self.a[k]
            for c in idx:
                coef = coef * self.K[k, c]
            # d^n/dθ^n sin θ
            out = out + coef * (np.sin(th[k] + n * np.pi / 2))
        if n == 0:
            out = out + self.c0
        return out

    def jet(self, X, pre=()):
        """J2 of d_pre f (pre: tuple of derivative indices applied first)."""
        D = self.D
        shape = np.broadcast(*X).shape
        v = self.deriv(X, pre)
        d = np.zeros((D,) + shape)
        dd = np.zeros((D, D) + shape)
        for c in range(D):
            d[c] = self.deriv(X, pre + (c,))
            for e in range(c, D):
                dd[c, e] = dd[e, c] = self.deriv(X, pre + (c, e))
        return J2(v, d, dd)


# ---------------------------------------------------------------------------
# pointwise linear algebra and curvature
# ---------------------------------------------------------------------------
def inv_pointwise(G):
    M = np.moveaxis(G, (0, 1), (-2, -1))
    return np.moveaxis(np.linalg.inv(M), (-2, -1), (0, 1))


def det_pointwise(G):
    return np.linalg.det(np.moveaxis(G, (0, 1), (-2, -1)))


def curvature(G, dG, ddG):
    """Textbook curvature from metric jets in any dimension.

    R^a_{bcd} = d_c Gam^a_{db} - d_d Gam^a_{cb}
                + Gam^a_{ce} Gam^e_{db} - Gam^a_{de} Gam^e_{cb}
    """
    Gi = inv_pointwise(G)
    dGi = -np.einsum('ae...,cef...,fb...->cab...', Gi, dG, Gi)
    Gl = 0.5 * (np.einsum('bdc...->dbc...', dG)
                + np.einsum('cdb...->dbc...', dG)
                - np.einsum('dbc...->dbc...', dG))        # Gamma_{d,bc}
    Gam = np.einsum('ad...,dbc...->abc...', Gi, Gl)
    dGl = 0.5 * (np.einsum('ebdc...->edbc...', ddG)
                 + np.einsum('ecdb...->edbc...', ddG)
                 - np.einsum('edbc...->edbc...', ddG))
    dGam = (np.einsum('ead...,dbc...->eabc...', dGi, Gl)
            + np.einsum('ad...,edbc...->eabc...', Gi, dGl))
    Rm = (np.einsum('cadb...->abcd...', dGam)
          - np.einsum('dacb...->abcd...', dGam)
          + np.einsum('ace...,edb...->abcd...', Gam, Gam)
          - np.einsum('ade...,ecb...->abcd...', Gam, Gam))
    Rd = np.einsum('ai...,ibcd...->abcd...', G, Rm)
    Ric = np.einsum('abad...->bd...', Rm)
    RS = np.einsum('ab...,ab...->...', Gi, Ric)
    return dict(gup=Gi, dgup=dGi, Gamma_down=Gl, Gamma=Gam, dGamma=dGam,
                Riem_uddd=Rm, Riem_down=Rd, Ricci=Ric, RicciS=RS)


def weyl(G, Rd, Ric, RS):
    n = G.shape[0]
    gR = np.einsum('ac...,bd...->abcd...', G, Ric)
    C = Rd - (1 / (n - 2)) * (gR - np.einsum('abcd...->abdc...', gR)
                              - np.einsum('abcd...->bacd...', gR)
                              + np.einsum('abcd...->badc...', gR))
    gg = np.einsum('ac...,bd...->abcd...', G, G)
    C = C + RS / ((n - 1) * (n - 2)) * (gg - np.einsum('abcd...->abdc...', gg))
    return C


def levicivita_symbol(n):
    eps = np.zeros((n,) * n)
    for p in itertools.permutations(range(n)):
        eps[p] = round(np.linalg.det(np.eye(n)[list(p)]))
    return eps


def matrix_jets(M):
    """nested list of J2 (symmetric n x n) -> G, dG, ddG arrays."""
    n = len(M)
    shape = M[0][0].v.shape
    D = M[0][0].d.shape[0]
    G = np.zeros((n, n) + shape)
    dG = np.zeros((D, n, n) + shape)
    ddG = np.zeros((D, D, n, n) + shape)
    for a in range(n):
        for b in range(n):
            G[a, b] = M[a][b].v
            dG[:, a, b] = M[a][b].d
            ddG[:, :, a, b] = M[a][b].dd
    return G, dG, ddG
