"""Helpers to drive the real aurel code on exact inputs."""
import numpy as np

from . import spacetimes as S
from .common import Quiet


def aurel():
    import aurel as _a
    return _a


def grid_param(n, xmin, d):
    n = tuple(n) if hasattr(n, "__len__") else (n, n, n)
    xmin = tuple(xmin) if hasattr(xmin, "__len__") else (xmin,) * 3
    d = tuple(d) if hasattr(d, "__len__") else (d,) * 3
    return {'Nx': n[0], 'Ny': n[1], 'Nz': n[2],
            'xmin': xmin[0], 'ymin': xmin[1], 'zmin': xmin[2],
            'dx': d[0], 'dy': d[1], 'dz': d[2]}


def make_fd(n, xmin, d, order=4, boundary='no boundary'):
    A = aurel()
    with Quiet():
        fd = A.FiniteDifference(grid_param(n, xmin, d), boundary=boundary,
                                fd_order=order, verbose=False)
    return fd


def coords(n, xmin, d):
    """Exact node coordinates, independent of aurel's own coordinate arrays."""
    n = tuple(n) if hasattr(n, "__len__") else (n, n, n)
    xmin = tuple(xmin) if hasattr(xmin, "__len__") else (xmin,) * 3
    d = tuple(d) if hasattr(d, "__len__") else (d,) * 3
    ax = [xmin[i] + np.arange(n[i]) * d[i] for i in range(3)]
    return np.meshgrid(*ax, indexing='ij')


def make_rel(fd, inputs, freeze=True, **kw):
    A = aurel()
    kw.setdefault('verbose', False)
    with Quiet():
        rel = A.AurelCore(fd, **kw)
    for k, v in inputs.items():
        rel.data[k] = np.array(v, copy=True) if isinstance(v, np.ndarray) else v
    if freeze:
        rel.freeze_data()
    return rel


def adm_inputs(ex, extra=()):
    keys = list(S.ADM_INPUT_KEYS) + list(extra)
    return {k: ex[k] for k in keys}


def refinement_pair(n1, box_min, box_len):
    """(n1, d1) and (2*n1-1, d1/2): every coarse node is a fine node."""
    d1 = box_len / (n1 - 1)
    return [(n1, d1), (2 * n1 - 1, d1 / 2)]
