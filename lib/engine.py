"""Two-grid comparison engine shared by the differential-geometry checks."""
import numpy as np

from . import common, conv


def grid_plan(spec):
    """Grids and windows for a case.

    mode 'open'    : boundary 'no boundary', grids n1 and 2*n1-1 on the same
                     box; strict verdict on the interior window where every
                     nested stencil is centred (margin 2*mask_len), relaxed
                     verdict (one order lost, inherent to splicing one-sided
                     stencils twice) on the whole grid for p >= 4.
    mode 'periodic': boundary 'periodic', spatially periodic member, grids n1
                     and 2*n1 over one period; strict verdict everywhere.
    """
    p, n1 = spec['order'], spec['n1']
    lo, L = spec['box']
    m = p // 2
    if spec.get('mode', 'open') == 'periodic':
        grids = [dict(n=n1, d=L / n1, lo=lo, boundary='periodic'),
                 dict(n=2 * n1, d=L / (2 * n1), lo=lo, boundary='periodic')]
        windows = [("periodic", 0, 1)]
    else:
        d1 = L / (n1 - 1)
        if spec.get('aniso'):
            # three different spacings (a formula or operator that takes the
            # spacing of another axis is then wrong by a non-converging 15-35 %)
            d1 = (d1, 0.85 * d1, 1.15 * d1)
            grids = [dict(n=n1, d=d1, lo=lo, boundary='no boundary'),
                     dict(n=2 * n1 - 1, d=tuple(v / 2 for v in d1), lo=lo, boundary='no boundary')]
        else:
            grids = [dict(n=n1, d=d1, lo=lo, boundary='no boundary'),
                     dict(n=2 * n1 - 1, d=d1 / 2, lo=lo, boundary='no boundary')]
        windows = []
        if n1 - 4 * m >= 3:
            windows.append(("interior", 2 * m, 1))
        if p >= 4:
            windows.append(("full", 0, 2))
    return grids, windows


def compare(res, spec, vals, keys, algebraic=(), tags=(), scale_hints=None,
            by_class=True, alg_tol=1e-11):
    """vals = [(exact dict, code dict)] for the coarse and fine grid."""
    p, n1 = spec['order'], spec['n1']
    grids_, windows = grid_plan(spec)
    abs_floor = conv.roundoff_floor(np.min(grids_[1]['d']))
    scale_hints = scale_hints or {}
    (ex1, c1), (ex2, c2) = vals
    tags = list(tags)
    for k in list(algebraic) + list(keys):
        if isinstance(c1.get(k), Exception) or isinstance(c2.get(k), Exception):
            e = c1[k] if isinstance(c1.get(k), Exception) else c2[k]
            common.add_violation(res, f"{k} raises {type(e).__name__}",
                                 {"error": repr(e)[:500]})
            continue
        if k in algebraic:
            ok = True
            for (ex, c) in vals:
                res['observations'] += 1
                a, b = np.asarray(c[k]), np.asarray(ex[k])
                if a.shape != b.shape:
                    common.add_violation(res, f"{k} shape",
                                         {"got": a.shape, "want": b.shape})
                    ok = False
                    break
                err = np.abs(a - b).max()
                sc = max(np.abs(b).max(), scale_hints.get(k, 0.0), 1e-300)
                if not err <= alg_tol * sc:
                    common.add_violation(res, f"{k} algebraic", {
                        "max_err": float(err), "scale": float(sc)})
                    ok = False
                    break
            if ok:
                res['nontrivial'].append(tags + [k, "algebraic"])
            continue
        for wname, marg, lose in windows:
            rows = conv.compare_pair(c1[k], ex1[k], c2[k], ex2[k], (n1,) * 3,
                                     (marg,) * 3, p,
                                     scale_hint=scale_hints.get(k, 0.0),
                                     by_class=by_class, lose=lose, abs_floor=abs_floor)
            for lab, v, info, e1, e2, sc in rows:
                res['observations'] += 1
                if v == "violated":
                    common.add_violation(res, f"{k} class={lab}", {
                        "window": wname, "info": info, "order": p, "n1": n1})
                elif v == "held" and sc > 0:
                    res['nontrivial'].append(tags + [k, lab])
            res['notes'].append([k, wname, [(lab, v, info)
                                            for lab, v, info, *_ in rows]])


class CachedValueChanged(Exception):
    pass


def eval_keys(rel, keys):
    code = {}
    with common.Quiet():
        for k in keys:
            try:
                v = rel[k]
                code[k] = np.array(v, copy=True)
            except Exception as e:  # a raise is an observation too
                code[k] = e
        # second pass (all cache hits): what was handed out must still be what
        # the instance returns after the later requests
        for k in keys:
            if isinstance(code[k], np.ndarray) and k in rel.data:
                again = np.asarray(rel[k])
                if again.shape != code[k].shape or not np.array_equal(
                        again, code[k], equal_nan=True):
                    code[k] = CachedValueChanged(
                        f"{k} changed after later requests (max diff "
                        f"{np.nanmax(np.abs(again - code[k])) if again.shape == code[k].shape else 'shape'})")
    return code


def refine_if_marginal(run_case, spec, res):
    """A periodic case whose only violations are 'marginal' (converging, but
    below the asymptotic rate on these grids) is repeated once on the next
    finer pair of grids; a formula error does not converge on any pair."""
    if res['status'] != 'violated' or spec.get('mode') != 'periodic':
        return res
    if spec.get('_refined') or spec['n1'] > 16:
        return res
    if not all(str(v['detail'].get('info', '')).endswith('marginal') for v in res['violations']):
        return res
    res2 = run_case(dict(spec, n1=2 * spec['n1'], _refined=True))
    res2['spec'] = spec
    res2['notes'].append(f"marginal on n1={spec['n1']}: judged on n1={2 * spec['n1']}")
    res2['monitor']['refined_cases'] = res2['monitor'].get('refined_cases', 0) + 1
    return res2
