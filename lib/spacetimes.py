"""Spacetime families and the exact 3+1 / curvature fields derived from them.

A spacetime only has to provide `gJ2(X)`: the 4x4 matrix of second-order jets
of g_ab at the points X = (T, x, y, z).  Every other exact quantity is derived
here from those jets with textbook definitions (see jets.py); nothing is
shared with aurel.
"""
import numpy as np

from . import jets
from .jets import J2, Trig


# ---------------------------------------------------------------------------
# J2 helpers for small matrices
# ---------------------------------------------------------------------------
def inv3_J2(m):
    """Inverse and determinant of a symmetric 3x3 matrix of J2 (adjugate)."""
    a, b, c = m[0][0], m[0][1], m[0][2]
    d, e, f = m[1][1], m[1][2], m[2][2]
    co = [[d * f - e * e, c * e - b * f, b * e - c * d],
          [None, a * f - c * c, b * c - a * e],
          [None, None, a * d - b * b]]
    det = a * co[0][0] + b * co[0][1] + c * co[0][2]
    rdet = det.recip()
    inv = [[None] * 3 for _ in range(3)]
    for i in range(3):
        for j in range(i, 3):
            inv[i][j] = inv[j][i] = co[i][j] * rdet
    return inv, det


class Spacetime:
    name = "abstract"

    def gJ2(self, X):
        raise NotImplementedError

    def describe(self):
        return {"family": self.name}


class ADMTrig(Spacetime):
    """F1: alpha = 1 + a, beta^i = b^i, gamma_ij = S^T (D + h) S."""

    name = "F1-adm-trig"

    def __init__(self, seed, eps=0.15, shift=1.0, lapse=1.0, static=False,
                 diagonal=False, shear=0.0, scale=None, kmax=1.0, nterms=2,
                 period=None, shift_x0=False):
        rng = np.random.default_rng([int(seed), 101])
        kmask = [0 if static else 1, 1, 1, 1]
        R = lambda amp: Trig.random(rng, 4, nterms, amp, kmax, kmask=kmask,
                                    period=period)
        self.a = R(eps * lapse)
        self.b = [R(eps * shift) for _ in range(3)]
        if shift_x0:          # beta^x vanishes identically
            self.b[0] = Trig(0.0, [], np.zeros((0, 4)), [])
        self.h = [[None] * 3 for _ in range(3)]
        for i in range(3):
            for j in range(i, 3):
                t = R(eps)
                if diagonal and i != j:
                    t = Trig(0.0, [], np.zeros((0, 4)), [])
                self.h[i][j] = self.h[j][i] = t
        self.S = np.eye(3)
        if shear:
            self.S = np.eye(3) + shear * rng.uniform(-1, 1, (3, 3))
        self.scale = np.ones(3) if scale is None else np.asarray(scale, float)
        self.opts = dict(seed=int(seed), eps=eps, shift=shift, lapse=lapse,
                         static=static, diagonal=diagonal, shear=shear,
                         scale=None if scale is None else list(scale),
                         kmax=kmax, period=period, shift_x0=shift_x0)

    def describe(self):
        return {"family": self.name, **self.opts}

    def gJ2(self, X):
        shape = np.broadcast(*X).shape
        al = self.a.jet(X) + 1.0
        be = [b.jet(X) for b in self.b]
        sq = np.sqrt(self.scale)
        base = [[self.h[i][j].jet(X) * (sq[i] * sq[j])
                 + (self.scale[i] if i == j else 0.0)
                 for j in range(3)] for i in range(3)]
        S = self.S
        gam = [[None] * 3 for _ in range(3)]
        for i in range(3):
            for j in range(i, 3):
                acc = J2.const(0.0, shape)
                for k in range(3):
                    for l in range(3):
                        if S[k, i] * S[l, j] != 0:
                            acc = acc + base[k][l] * (S[k, i] * S[l, j])
                gam[i][j] = gam[j][i] = acc
        bd = [gam[i][0] * be[0] + gam[i][1] * be[1] + gam[i][2] * be[2]
              for i in range(3)]
        g = [[None] * 4 for _ in range(4)]
        g[0][0] = bd[0] * be[0] + bd[1] * be[1] + bd[2] * be[2] - al * al
        for i in range(3):
            g[0][i + 1] = g[i + 1][0] = bd[i]
            for j in range(3):
                g[i + 1][j + 1] = gam[i][j]
        return g


class PulledBack(Spacetime):
    """F2: a known metric pulled back through x^mu = X^mu + xi^mu(X)."""

    name = "F2-pulled-back"

    def __init__(self, seed, base="minkowski", eps=0.12, kmax=1.0, nterms=2,
                 t_offset=3.0, period=None):
        rng = np.random.default_rng([int(seed), 202])
        eps_eff = eps
        if period is not None:
            eps_eff = eps * min(1.0, period / (2 * np.pi))
        self.xi = [Trig.random(rng, 4, nterms, eps_eff, kmax, period=period)
                   for _ in range(4)]
        self.base = base
        self.t_offset = t_offset
        p = None
        if base == "kasner":
            # Kasner exponents: sum p = sum p^2 = 1
            u = rng.uniform(0.2, 3.0)
            den = 1 + u + u * u
            p = np.array([-u / den, (1 + u) / den, u * (1 + u) / den])
            p = p[rng.permutation(3)]
        self.p = p
        self.H = 0.3          # de Sitter in flat slicing: Lambda = 3 H^2
        self.opts = dict(seed=int(seed), base=base, eps=eps, kmax=kmax,
                         period=period,
                         p=None if p is None else p.round(6).tolist())

    def describe(self):
        return {"family": self.name, **self.opts}

    def gJ2(self, X):
        shape = np.broadcast(*X).shape
        # Jacobian J[mu][a] = d_a x^mu  as J2
        Jm = [[self.xi[mu].jet(X, pre=(a,)) + (1.0 if a == mu else 0.0)
               for a in range(4)] for mu in range(4)]
        if self.base == "minkowski":
            diag = [J2.const(-1.0, shape)] + [J2.const(1.0, shape)] * 3
        else:
            # physical time coordinate as a field of X
            Tcoord = np.broadcast_to(np.asarray(X[0], float), shape)
            tj = self.xi[0].jet(X)
            tj = J2(tj.v + Tcoord + self.t_offset, tj.d.copy(), tj.dd)
            tj.d[0] = tj.d[0] + 1.0
            if self.base == "desitter":
                a2 = (tj * (2.0 * self.H)).exp()
                diag = [J2.const(-1.0, shape), a2, a2, a2]
            else:
                diag = [J2.const(-1.0, shape)] + [tj.power(2 * pi) for pi in self.p]
        g = [[None] * 4 for _ in range(4)]
        for a in range(4):
            for b in range(a, 4):
                acc = J2.const(0.0, shape)
                for mu in range(4):
                    acc = acc + diag[mu] * Jm[mu][a] * Jm[mu][b]
                g[a][b] = g[b][a] = acc
        return g


# ---------------------------------------------------------------------------
# exact fields
# ---------------------------------------------------------------------------
LC3 = jets.levicivita_symbol(3)
LC4 = jets.levicivita_symbol(4)


def adm_from_gJ2(g):
    """alpha, beta^i, gamma_ij, gamma^ij, det gamma as J2 objects."""
    gam = [[g[i + 1][j + 1] for j in range(3)] for i in range(3)]
    gup, det = inv3_J2(gam)
    bd = [g[0][i + 1] for i in range(3)]
    bu = [gup[i][0] * bd[0] + gup[i][1] * bd[1] + gup[i][2] * bd[2]
          for i in range(3)]
    al2 = bd[0] * bu[0] + bd[1] * bu[1] + bd[2] * bu[2] - g[0][0]
    return dict(alpha=al2.sqrt(), betaup=bu, betadown=bd, gammadown=gam,
                gammaup=gup, det=det)


def _vec(js):
    return np.array([j.v for j in js])


def _sp(arr4):
    """drop the time row of a derivative-first array."""
    return arr4[1:]


def exact_fields(st, t0, x, y, z, Lam=0.0, kappa=8 * np.pi, level="full"):
    """All exact quantities on the slice t = t0 at grid points (x, y, z).

    level: 'adm' (3+1 inputs + algebra + BSSN variables),
           'full' (adds 4D/3D curvature, Weyl, matter projections).
    Keys follow aurel's names so that checks can loop over them.
    """
    shape = np.broadcast(x, y, z).shape
    X = (np.full(shape, float(t0)), np.broadcast_to(x, shape),
         np.broadcast_to(y, shape), np.broadcast_to(z, shape))
    g = st.gJ2(X)
    G, dG, ddG = jets.matrix_jets(g)
    adm = adm_from_gJ2(g)
    o = {}
    al = adm['alpha']
    o['alpha'] = al.v
    o['dtalpha'] = al.d[0]
    o['dalpha'] = al.d[1:]
    o['ddalpha'] = al.dd[1:, 1:]
    o['betaup3'] = _vec(adm['betaup'])
    o['dtbetaup3'] = np.array([b.d[0] for b in adm['betaup']])
    o['dbetaup3'] = np.array([[adm['betaup'][i].d[c + 1] for i in range(3)]
                              for c in range(3)])          # [c,i] = d_c beta^i
    o['ddbetaup3'] = np.array([[[adm['betaup'][i].dd[c + 1, e + 1]
                                 for i in range(3)] for e in range(3)]
                               for c in range(3)])         # [c,e,i]
    o['betadown3'] = _vec(adm['betadown'])
    gam = G[1:, 1:].copy()
    o['gammadown3'] = gam
    gu = np.array([[adm['gammaup'][i][j].v for j in range(3)]
                   for i in range(3)])
    o['gammaup3'] = gu
    o['gammadet'] = adm['det'].v
    o['gdown4'] = G
    o['gup4'] = jets.inv_pointwise(G)
    o['gdet'] = jets.det_pointwise(G)
    # 4D Christoffels (first derivatives only)
    Gi = o['gup4']
    Gl = 0.5 * (np.einsum('bdc...->dbc...', dG) + np.einsum('cdb...->dbc...', dG)
                - np.einsum('dbc...->dbc...', dG))
    Gam4 = np.einsum('ad...,dbc...->abc...', Gi, Gl)
    o['st_Gamma_udd4'] = Gam4
    K = -al.v * Gam4[0, 1:, 1:]
    o['Kdown3'] = K
    o['Ktrace'] = np.einsum('ij...,ij...->...', gu, K)
    o['Kup3'] = np.einsum('ia...,jb...,ij...->ab...', gu, gu, K)
    A = K - gam * o['Ktrace'] / 3
    o['Adown3'] = A
    o['Aup3'] = np.einsum('ia...,jb...,ij...->ab...', gu, gu, A)
    o['A2'] = 0.5 * np.einsum('ij...,ij...->...', A, o['Aup3'])
    nup = np.array([1 / al.v] + [-adm['betaup'][i].v / al.v for i in range(3)])
    o['nup4'] = nup
    o['ndown4'] = np.array([-al.v] + [np.zeros(shape)] * 3)
    # BSSNOK variables (J2 arithmetic so that derivatives are exact too)
    det = adm['det']
    phi = det.log() * (1 / 12)
    o['phi_bssnok'] = phi.v
    o['dphi_bssnok'] = phi.d[1:]
    o['psi_bssnok'] = det.v ** (1 / 12)
    em4 = det.power(-1 / 3)
    e4 = det.power(1 / 3)
    gtd = [[adm['gammadown'][i][j] * em4 for j in range(3)] for i in range(3)]
    gtu = [[adm['gammaup'][i][j] * e4 for j in range(3)] for i in range(3)]
    o['gammadown3_bssnok'] = np.array([[gtd[i][j].v for j in range(3)]
                                       for i in range(3)])
    o['gammaup3_bssnok'] = np.array([[gtu[i][j].v for j in range(3)]
                                     for i in range(3)])
    o['Adown3_bssnok'] = em4.v * A
    o['Aup3_bssnok'] = e4.v * o['Aup3']
    o['A2_bssnok'] = np.einsum('ij...,ij...->...', o['Adown3_bssnok'],
                               o['Aup3_bssnok'])
    o['s_Gamma_bssnok'] = -np.array(
        [sum(gtu[i][j].d[j + 1] for j in range(3)) for i in range(3)])
    if level == 'adm':
        return o
    # ---------------- full curvature
    cur = jets.curvature(G, dG, ddG)
    Ein = cur['Ricci'] - 0.5 * cur['RicciS'] * G
    o['st_Riemann_down4'] = cur['Riem_down']
    o['st_Riemann_uddd4'] = cur['Riem_uddd']
    o['st_Ricci_down4'] = cur['Ricci']
    o['st_Ricci_down3'] = cur['Ricci'][1:, 1:]
    o['st_RicciS'] = cur['RicciS']
    o['Einsteindown4'] = Ein
    o['st_Riemann_uudd4'] = np.einsum('abcd...,ae...,bf...->efcd...',
                                      cur['Riem_down'], Gi, Gi)
    o['Kretschmann'] = np.einsum('abcd...,cdab...->...',
                                 o['st_Riemann_uudd4'], o['st_Riemann_uudd4'])
    W = jets.weyl(G, cur['Riem_down'], cur['Ricci'], cur['RicciS'])
    o['st_Weyl_down4'] = W
    Td = (Ein + Lam * G) / kappa
    o['Tdown4'] = Td
    o['Tup4'] = np.einsum('ac...,bd...,ab...->cd...', Gi, Gi, Td)
    o['Ttrace'] = np.einsum('ab...,ab...->...', Gi, Td)
    # spatial curvature from the jets of gamma
    c3 = jets.curvature(gam, dG[1:, 1:, 1:], ddG[1:, 1:, 1:, 1:])
    o['s_Gamma_udd3'] = c3['Gamma']
    o['s_Riemann_uddd3'] = c3['Riem_uddd']
    o['s_Riemann_down3'] = c3['Riem_down']
    o['s_Ricci_down3'] = c3['Ricci']
    o['s_RicciS'] = c3['RicciS']
    o['DDalpha'] = o['ddalpha'] - np.einsum('kij...,k...->ij...',
                                            c3['Gamma'], o['dalpha'])
    # conformal curvature from jets of the conformal metric
    Gt, dGt, ddGt = jets.matrix_jets(gtd)
    ct = jets.curvature(Gt, dGt[1:], ddGt[1:, 1:])
    o['s_Gamma_udd3_bssnok'] = ct['Gamma']
    o['s_Ricci_down3_bssnok'] = ct['Ricci']
    o['s_RicciS_bssnok'] = ct['RicciS']
    o['s_Ricci_down3_phi'] = c3['Ricci'] - ct['Ricci']
    # matter projections with the exact normal
    o['rho_n'] = np.einsum('ab...,a...,b...->...', Td, nup, nup)
    gam4u = Gi + np.einsum('a...,b...->ab...', nup, nup)
    o['gammaup4'] = gam4u
    o['fluxup3_n'] = -np.einsum('ab...,bc...,c...->a...', gam4u, Td, nup)[1:]
    o['fluxdown3_n'] = np.einsum('ij...,j...->i...', gam, o['fluxup3_n'])
    o['Stressdown3_n'] = Td[1:, 1:].copy()
    o['Stressup3_n'] = np.einsum('ia...,jb...,ij...->ab...', gu, gu, Td[1:, 1:])
    o['Stresstrace_n'] = np.einsum('ij...,ij...->...', gu, Td[1:, 1:])
    o['press_n'] = o['Stresstrace_n'] / 3
    # gravito-electromagnetism in the normal frame; conventions taken from the
    # documented u-frame contractions (eweyl_u_down4 / bweyl_u_down4) with u=n
    E4 = np.einsum('b...,d...,abcd...->ac...', nup, nup, W)
    o['eweyl_n_down4'] = E4
    o['eweyl_n_down3'] = E4[1:, 1:]
    LC = LC4.reshape(LC4.shape + (1,) * len(shape)) * np.sqrt(-o['gdet'])
    LCuudd = np.einsum('ac...,bd...,abef...->cdef...', Gi, Gi, LC)
    B4 = 0.5 * np.einsum('b...,f...,abcd...,cdef...->ae...', nup, nup, W, LCuudd)
    o['bweyl_n_down4'] = B4
    o['bweyl_n_down3'] = B4[1:, 1:]
    return o


_TW = {1: 4 / 5, 2: -1 / 5, 3: 4 / 105, 4: -1 / 280}


def exact_dt(st, keys, t0, x, y, z, h=0.02, **kw):
    """8th-order centred t-derivative of exact 'adm'-level fields."""
    acc = {k: 0.0 for k in keys}
    for k, c in _TW.items():
        fp = exact_fields(st, t0 + k * h, x, y, z, level='adm', **kw)
        fm = exact_fields(st, t0 - k * h, x, y, z, level='adm', **kw)
        for key in keys:
            acc[key] = acc[key] + c * (fp[key] - fm[key])
    return {k: v / h for k, v in acc.items()}


ADM_INPUT_KEYS = ['alpha', 'dtalpha', 'betaup3', 'dtbetaup3', 'gammadown3',
                  'Kdown3']


def member(spec):
    """Build a spacetime from a JSON-able spec (used by replays)."""
    spec = dict(spec)
    fam = spec.pop('family')
    if fam == ADMTrig.name:
        return ADMTrig(**spec)
    if fam == PulledBack.name:
        spec.pop('p', None)
        return PulledBack(**spec)
    raise ValueError(fam)
