"""Driver plumbing shared by all checks: seeding, sharding, verdicts, evidence,
known findings, replays (DESIGN 1.5)."""
import hashlib
import io
import json
import os
import subprocess
import sys
import time
import traceback

ROOT = os.path.dirname(os.path.dirname(os.path.abspath(__file__)))
EVID = os.path.join(ROOT, "evidence")
REPLAYS = os.path.join(ROOT, "replays")
WORK = os.path.join(ROOT, ".work")
KNOWN = os.path.join(ROOT, "known_findings.json")
PY = "/venv/bin/python"


def setup_repo_path():
    """Import aurel from /repo (default, editable install) or VERIF_REPO."""
    global EVID, REPLAYS
    repo = os.environ.get("VERIF_REPO")
    if repo:
        sys.path.insert(0, os.path.join(repo, "src"))
        # runs against a scratch copy never overwrite the evidence of /repo
        EVID = os.path.join(WORK, "evidence_scratch")
        REPLAYS = os.path.join(WORK, "replays_scratch")
    os.environ.setdefault("AUREL_VERIF", "1")


def seed():
    try:
        return int(os.environ.get("VERIF_SEED", "0"))
    except ValueError:
        return 0


def tier_default():
    t = os.environ.get("VERIF_TIER", "quick")
    return t if t in ("quick", "thorough") else "quick"


def jhash(obj, n=10):
    return hashlib.blake2b(json.dumps(obj, sort_keys=True, default=str)
                           .encode(), digest_size=16).hexdigest()[:n]


class Quiet:
    """Silence aurel's prints inside a block (they are not observations)."""

    def __enter__(self):
        self._o = sys.stdout
        sys.stdout = io.StringIO()
        return self

    def __exit__(self, *a):
        sys.stdout = self._o


def load_known():
    if not os.path.exists(KNOWN):
        return {"open": [], "fixed": []}
    with open(KNOWN) as f:
        return json.load(f)


def to_jsonable(o):
    import numpy as np
    if isinstance(o, dict):
        return {str(k): to_jsonable(v) for k, v in o.items()}
    if isinstance(o, (list, tuple, set)):
        return [to_jsonable(v) for v in o]
    if isinstance(o, np.ndarray):
        if o.size <= 64:
            return o.tolist()
        return {"ndarray": list(o.shape), "dtype": str(o.dtype)}
    if isinstance(o, (np.integer,)):
        return int(o)
    if isinstance(o, (np.floating,)):
        return float(o)
    if isinstance(o, (np.bool_,)):
        return bool(o)
    if isinstance(o, complex):
        return [o.real, o.imag]
    return o


# ---------------------------------------------------------------------------
# result of one case
# ---------------------------------------------------------------------------
def new_result(spec):
    return {"spec": spec, "status": "held", "violations": [],
            "nontrivial": [], "observations": 0, "monitor": {}, "notes": []}


def add_violation(res, mech, detail):
    """mech: mechanism key (property-independent string); detail: JSON-able."""
    res["status"] = "violated"
    res["violations"].append({"mech": mech, "detail": to_jsonable(detail)})


# ---------------------------------------------------------------------------
# parent / shard protocol
# ---------------------------------------------------------------------------
def run_shard(mod, tier, sd, shard, nshards, out):
    cases = mod.cases(tier, sd)
    mine = [c for i, c in enumerate(cases) if i % nshards == shard]
    with open(out, "w") as f:
        for spec in mine:
            t0 = time.time()
            try:
                res = mod.run_case(spec)
            except Exception:
                res = new_result(spec)
                res["status"] = "error"
                res["notes"].append(traceback.format_exc()[-3000:])
            res["wall_s"] = round(time.time() - t0, 3)
            f.write(json.dumps(to_jsonable(res)) + "\n")
            f.flush()
        f.write(json.dumps({"shard_done": shard}) + "\n")


def run_parent(pid, mod, tier, sd, nshards=None, timeout=None):
    t0 = time.time()
    os.makedirs(WORK, exist_ok=True)
    os.makedirs(EVID, exist_ok=True)
    cases = mod.cases(tier, sd)
    ncpu = os.cpu_count() or 4
    mem_gb = float(getattr(mod, "MEM_GB", 2.0))      # peak resident size of one shard
    try:
        with open("/proc/meminfo") as f:
            avail = next(int(l.split()[1]) for l in f if l.startswith("MemAvailable")) / 1048576
    except Exception:
        avail = 64.0
    nshards = nshards or max(1, min(ncpu, len(cases), int(0.7 * avail / mem_gb)))
    timeout = timeout or getattr(mod, "TIMEOUT", {}).get(tier, 3000)
    env = dict(os.environ, OMP_NUM_THREADS="1", OPENBLAS_NUM_THREADS="1",
               MKL_NUM_THREADS="1", PYTHONHASHSEED="0", VERIF_SEED=str(sd),
               VERIF_TIER=tier, PYTHONDONTWRITEBYTECODE="1")
    deadline = t0 + timeout

    def launch(shards, parallel):
        """run the given shards, at most `parallel` at a time; returns #watchdog kills"""
        pending, running, killed = list(shards), [], 0
        while pending or running:
            while pending and len(running) < parallel:
                s = pending.pop(0)
                out = os.path.join(WORK, f"{pid}.{tier}.{sd}.{os.getpid()}.{s}.jsonl")
                if os.path.exists(out):
                    os.remove(out)
                cmd = [PY, os.path.join(ROOT, "check.py"), pid, "--tier", tier,
                       "--seed", str(sd), "--shard", f"{s}/{nshards}", "--out", out]
                log = open(out + ".log", "w")
                running.append((s, out, log, subprocess.Popen(
                    cmd, env=env, cwd=ROOT, stdout=log, stderr=subprocess.STDOUT)))
            still = []
            for s, out, log, p in running:
                if p.poll() is None:
                    if time.time() > deadline:
                        p.kill()
                        p.wait()
                        killed += 1
                        log.close()
                    else:
                        still.append((s, out, log, p))
                else:
                    log.close()
            running = still
            if running:
                time.sleep(0.2)
        return killed

    def complete(s):
        out = os.path.join(WORK, f"{pid}.{tier}.{sd}.{os.getpid()}.{s}.jsonl")
        if not os.path.exists(out):
            return False
        with open(out) as f:
            return any('"shard_done"' in line for line in f)

    watchdog = launch(range(nshards), nshards)
    # a shard that died without the watchdog firing (e.g. killed by the kernel
    # under memory pressure from other jobs) is re-run once, two at a time
    lost = [s for s in range(nshards) if not complete(s)]
    retried = []
    if lost and not watchdog and time.time() < deadline:
        retried = list(lost)
        watchdog += launch(lost, 2)
    procs = [(s, os.path.join(WORK, f"{pid}.{tier}.{sd}.{os.getpid()}.{s}.jsonl"), None, None)
             for s in range(nshards)]
    results, done = [], 0
    crashed = []
    for s, out, log, p in procs:
        ok = False
        if os.path.exists(out):
            with open(out) as f:
                for line in f:
                    try:
                        r = json.loads(line)
                    except Exception:
                        continue
                    if "shard_done" in r:
                        ok = True
                    else:
                        results.append(r)
        if ok:
            done += 1
        else:
            crashed.append(s)
        for fn in (out, out + ".log"):
            if ok and os.path.exists(fn):
                os.remove(fn)
    return finish(pid, mod, tier, sd, cases, results, time.time() - t0,
                  watchdog=watchdog, crashed=crashed)


def finish(pid, mod, tier, sd, cases, results, wall, watchdog=0, crashed=()):
    known = load_known()
    open_mechs = {e["mech"]: e for e in known.get("open", [])
                  if e["property"] == pid}
    nontrivial = set()
    monitor = {}
    viol_unlisted, viol_known = [], {}
    n_inconclusive = 0
    errors = []
    observations = 0
    for r in results:
        observations += int(r.get("observations", 0))
        for k in r.get("nontrivial", []):
            nontrivial.add(json.dumps(k, sort_keys=True))
        for k, v in r.get("monitor", {}).items():
            if isinstance(v, (int, float)):
                monitor[k] = monitor.get(k, 0) + v
            elif isinstance(v, list):
                s = monitor.setdefault(k, [])
                for item in v:
                    if item not in s:
                        s.append(item)
            elif isinstance(v, dict):
                d = monitor.setdefault(k, {})
                for kk, vv in v.items():
                    d[kk] = d.get(kk, 0) + vv
        if r["status"] == "inconclusive":
            n_inconclusive += 1
        if r["status"] == "error":
            errors.append(r)
        for v in r.get("violations", []):
            if v["mech"] in open_mechs:
                viol_known.setdefault(v["mech"], []).append((r, v))
            else:
                viol_unlisted.append((r, v))
    os.makedirs(REPLAYS, exist_ok=True)
    for fn in os.listdir(REPLAYS):      # replays of earlier runs are stale
        if fn.startswith(pid + "-"):
            os.remove(os.path.join(REPLAYS, fn))
    lines = []
    for mech, lst in sorted(viol_known.items()):
        lines.append(f"KNOWN-FINDING: property={pid} {mech} "
                     f"({open_mechs[mech].get('what', '')}; "
                     f"{len(lst)} witnesses this run)")
    seen_mech = {}
    for r, v in viol_unlisted:
        if v["mech"] in seen_mech:
            seen_mech[v["mech"]] += 1
            continue
        seen_mech[v["mech"]] = 1
        path = os.path.join(REPLAYS, f"{pid}-{jhash([r['spec'], v['mech']])}.json")
        with open(path, "w") as f:
            json.dump({"property": pid, "mech": v["mech"], "spec": r["spec"],
                       "detail": v["detail"], "tier": tier, "seed": sd,
                       "notes": r.get("notes", [])}, f, indent=1)
        lines.append(f"VIOLATION property={pid} replay={path}")
        lines.append(f"  mechanism: {v['mech']}")
    for r in errors[:5]:
        path = os.path.join(REPLAYS, f"{pid}-error-{jhash(r['spec'])}.json")
        with open(path, "w") as f:
            json.dump(r, f, indent=1)
        lines.append(f"HARNESS-ERROR property={pid} replay={path}")
        lines.append("  " + (r["notes"][-1].strip().splitlines()[-1]
                              if r["notes"] else ""))
    floor = getattr(mod, "MIN_NONTRIVIAL", {}).get(tier, 2)
    missing = len(cases) - len(results)
    inconclusive_reasons = []
    if watchdog:
        inconclusive_reasons.append(f"watchdog fired on {watchdog} shards")
    if crashed:
        inconclusive_reasons.append(f"shards without completion marker: {list(crashed)}")
    if missing > 0:
        inconclusive_reasons.append(f"{missing} cases produced no result")
    if errors:
        inconclusive_reasons.append(f"{len(errors)} harness errors")
    if len(nontrivial) < floor:
        inconclusive_reasons.append(
            f"only {len(nontrivial)} distinct non-trivial cases (< {floor})")
    extra = getattr(mod, "coverage_check", None)
    if extra is not None:
        inconclusive_reasons += extra(tier, monitor, results)
    samples = []
    for r in results[:3]:
        samples.append({"spec": r["spec"], "status": r["status"],
                        "observations": r.get("observations"),
                        "nontrivial": r.get("nontrivial", [])[:6]})
    if hasattr(mod, "samples"):
        samples = mod.samples(results) or samples
    ev = {
        "property_id": pid, "tier": tier, "seed": sd,
        "level": getattr(mod, "LEVEL", "exploration"),
        "coverage": {
            "evaluations": len(results),
            "observations": observations,
            "distinct_nontrivial": len(nontrivial),
            "rule": mod.RULE,
            "samples": samples,
            "monitor": monitor,
            "cases_inconclusive": n_inconclusive,
            "known_findings_seen": sorted(viol_known),
            "verdict": ("violated" if viol_unlisted else
                        "inconclusive" if inconclusive_reasons else "held"),
            "inconclusive_reasons": inconclusive_reasons,
        },
        "assumptions": getattr(mod, "ASSUMPTIONS", []),
        "wall_s": round(wall, 2),
        "violations": len(viol_unlisted),
    }
    if getattr(mod, "EXHAUSTIVE", False):
        ev["coverage"]["exhaustive"] = True
    with open(os.path.join(EVID, f"{pid}.json"), "w") as f:
        json.dump(to_jsonable(ev), f, indent=1)
    for ln in lines:
        print(ln)
    print(f"{pid} tier={tier} seed={sd}: cases={len(results)}/{len(cases)} "
          f"observations={observations} nontrivial={len(nontrivial)} "
          f"unlisted_violations={len(viol_unlisted)} "
          f"known={len(viol_known)} verdict={ev['coverage']['verdict']} "
          f"wall={wall:.1f}s")
    if viol_unlisted:
        return 1
    if inconclusive_reasons:
        for rr in inconclusive_reasons:
            print(f"INCONCLUSIVE property={pid}: {rr}")
        return 2
    return 0
